// Explicit-state explorer over real PPL grids (property C05).
//
// Phase A: breadth-first closure of a builder alphabet (add_congruence, add_grid_generator, lazy-state changing
//          observers) to depth D, states deduplicated by the exact ascii_dump text.  Every state carries a
//          reference value (rg::RGrid, canonical form of a rational affine lattice) computed from its history by
//          ref/rgrid.hh, which shares no code with PPL.  Every up-to-date description of every state is compared
//          with the model value.
// Phase B: on every representative of (value class x lazy-state signature): both descriptions (plain and
//          minimized, in both observation orders), every query, every transformer with every argument of its menu
//          and every operand of the pool; plus a constructor section (from congruences / generators / constraints /
//          Box / Polyhedron / BD_Shape / Octagonal_Shape).
// Built with -fno-access-control: private members are read for cloning, signatures and triggers only.
#include "engine/common.hh"
#include "engine/ppl_ref.hh"
#include "ref/rgrid.hh"
#include "ref/dd.hh"
#include <unordered_map>
#include <deque>
#include <memory>

using namespace vf;
using rg::RGrid; using rg::Cong; using rg::Congs; using rg::Vec; using rg::Mat; using rg::Q;
using PPL::Variable; using PPL::Grid; using PPL::Linear_Expression; using PPL::Coefficient;

static Args ARGS;

// ------------------------------------------------------------------ value classes
struct Classes {
  std::deque<RGrid> vals;     // stable references
  std::unordered_map<std::string, int> ids;
  int classify(const RGrid& g) {
    std::string k = g.str();
    std::unordered_map<std::string, int>::iterator it = ids.find(k);
    if (it != ids.end()) return it->second;
    rg::check_consistency(g);         // both reference descriptions of a new value agree
    int id = (int)vals.size();
    vals.push_back(g); ids[k] = id;
    return id;
  }
  const RGrid& operator[](int id) const { return vals[id]; }
};
static Classes CL;
static std::string cstr(int cls) { return CL[cls].str(); }

// ------------------------------------------------------------------ menus
struct CG {              // e = 0 (mod m); m == 0: equality
  LE e; long m;
  CG() : m(0) {}
  CG(const LE& e_, long m_) : e(e_), m(m_) {}
  PPL::Congruence ppl() const { return (e.ppl() %= 0) / Coefficient(m); }
  Cong ref(int n) const { Vec a(n, Q(0)); for (int i = 0; i < n && i < (int)e.a.size(); ++i) a[i] = e.a[i]; return Cong(a, Q(e.b), Q(m)); }
  std::string str() const { return e.str() + (m == 0 ? "==0" : "=0 mod " + std::to_string(m)); }
};
struct GG {              // grid generator: 'p' point, 'q' parameter, 'l' line
  char t; std::vector<long> v; long d;
  GG() : t('p'), d(1) {}
  GG(char t_, std::initializer_list<long> v_, long d_ = 1) : t(t_), v(v_), d(d_) {}
  bool fits(int dim) const { for (size_t i = dim; i < v.size(); ++i) if (v[i]) return false; return true; }
  bool zero(int dim) const { for (int i = 0; i < dim && i < (int)v.size(); ++i) if (v[i]) return false; return true; }
  PPL::Grid_Generator ppl(int dim) const {
    Linear_Expression e;
    for (int i = 0; i < dim && i < (int)v.size(); ++i) if (v[i] != 0) e += Coefficient(v[i]) * Variable(i);
    if (dim > 0) e += 0 * Variable(dim - 1);
    if (t == 'p') return PPL::grid_point(e, Coefficient(d));
    if (t == 'q') return PPL::parameter(e, Coefficient(d));
    return PPL::grid_line(e);
  }
  Vec vec(int n) const { Vec r(n, Q(0)); for (int i = 0; i < n && i < (int)v.size(); ++i) r[i] = (t == 'l') ? Q(v[i]) : rg::mkq(v[i], d); return r; }
  std::string str() const {
    std::ostringstream s; s << (t == 'p' ? "point" : t == 'q' ? "parameter" : "line") << "(";
    for (size_t i = 0; i < v.size(); ++i) { if (i) s << ","; s << v[i]; }
    s << ")"; if (d != 1) s << "/" << d;
    return s.str();
  }
};
static bool fits(const LE& e, int dim) { return e.dim() <= dim; }
static Vec levec(const LE& e, int n) { Vec a(n, Q(0)); for (int i = 0; i < n && i < (int)e.a.size(); ++i) a[i] = e.a[i]; return a; }

static std::vector<CG> CGM, CGM_CORE;      // congruences (builder alphabet; core = used beyond the full-alphabet depth)
static std::vector<GG> GGM;                // grid generators
static std::vector<LE> EM;                 // expressions
static int MAXDIM = 2;

static void build_menus() {
  // rows (+-x, +-y, x+-y, 2x+y) = b (mod m), b in {0,1}, m in {0,1,2,3}
  long rows[][3] = {{1, 0, 0}, {-1, 0, 0}, {0, 1, 0}, {0, -1, 0}, {1, 1, 0}, {1, -1, 0}, {2, 1, 0}};
  for (auto& r : rows) for (long b = 0; b <= 1; ++b) for (long m = 0; m <= 3; ++m) {
    if (m == 1 && b == 1) continue;                       // same set as b = 0
    CGM.push_back(CG(LE({r[0], r[1], r[2]}, -b), m));
  }
  // half-integer variants, degenerate rows
  CGM.push_back(CG(LE({2, 0, 0}, -1), 2)); CGM.push_back(CG(LE({2, 0, 0}, -1), 0)); CGM.push_back(CG(LE({0, 2, 0}, -1), 2));
  CGM.push_back(CG(LE({3, 0, 0}, -1), 0)); CGM.push_back(CG(LE({2, 2, 0}, -1), 3));
  CGM.push_back(CG(LE({0, 0, 0}, 0), 2)); CGM.push_back(CG(LE({0, 0, 0}, 1), 2)); CGM.push_back(CG(LE({0, 0, 0}, 1), 0)); CGM.push_back(CG(LE({0, 0, 0}, 2), 2));
  if (MAXDIM >= 3) {
    long r3[][3] = {{0, 0, 1}, {1, 0, 1}, {0, 1, -1}, {1, 1, 1}};
    for (auto& r : r3) for (long b = 0; b <= 1; ++b) for (long m = 0; m <= 3; m += (b ? 2 : 1)) CGM.push_back(CG(LE({r[0], r[1], r[2]}, -b), m));
  }
  CGM_CORE = { CG(LE({1, 0, 0}, 0), 2), CG(LE({1, 0, 0}, -1), 2), CG(LE({0, 1, 0}, 0), 3), CG(LE({1, 1, 0}, 0), 2), CG(LE({1, -1, 0}, -1), 0),
               CG(LE({2, 1, 0}, 0), 3), CG(LE({2, 0, 0}, -1), 2), CG(LE({1, 0, 0}, -1), 0), CG(LE({0, 0, 0}, 1), 2) };
  GGM = { GG('p', {0, 0, 0}), GG('p', {1, 0, 0}, 2), GG('p', {1, 1, 0}, 3), GG('p', {2, 1, 0}), GG('p', {1, -1, 0}, 2), GG('p', {-1, 2, 0}, 3),
          GG('q', {1, 0, 0}), GG('q', {0, 2, 0}), GG('q', {1, 1, 0}, 2), GG('q', {3, -1, 0}), GG('q', {0, 0, 0}),
          GG('l', {1, 0, 0}), GG('l', {1, 1, 0}) };
  if (MAXDIM >= 3) { GGM.push_back(GG('p', {0, 0, 1})); GGM.push_back(GG('p', {1, 1, 1}, 2)); GGM.push_back(GG('q', {0, 0, 2})); GGM.push_back(GG('q', {1, 0, 1}, 3)); GGM.push_back(GG('l', {0, 0, 1})); GGM.push_back(GG('l', {1, 1, 1})); }
  EM = { LE({1, 0}, 0), LE({0, 1}, 0), LE({-1, 0}, 0), LE({2, 0}, 0), LE({1, 0}, 1), LE({0, 1}, 2), LE({1, 1}, 0),
         LE({1, -1}, 0), LE({2, -1}, 1), LE({0, -2}, 0), LE({0, 0}, 0), LE({0, 0}, 3), LE({3, 2}, 1) };
}

// ------------------------------------------------------------------ PPL descriptions -> reference values
static Q cq(const Coefficient& c) { return to_q(c); }
static RGrid value_of_raw(const PPL::Congruence_System& cs, int n) {
  RGrid g = RGrid::universe(n);
  for (PPL::Congruence_System::const_iterator i = cs.begin(), e = cs.end(); i != e; ++i) {
    Vec a(n, Q(0));
    for (int k = 0; k < n && k < (int)i->space_dimension(); ++k) a[k] = cq(i->coefficient(Variable(k)));
    g = rg::add_congruence(g, Cong(a, cq(i->inhomogeneous_term()), cq(i->modulus())));
  }
  return g;
}
// returns false if the system is malformed as a description (rows but no point)
static bool value_of_raw(const PPL::Grid_Generator_System& gs, int n, RGrid& out) {
  Mat pts, params, lines; size_t rows = 0;
  for (PPL::Grid_Generator_System::const_iterator i = gs.begin(), e = gs.end(); i != e; ++i) {
    ++rows;
    Vec v(n, Q(0));
    for (int k = 0; k < n && k < (int)i->space_dimension(); ++k) v[k] = cq(i->coefficient(Variable(k)));
    if (i->is_line()) lines.push_back(v);
    else { Q d = cq(i->divisor()); if (d == 0) return false; for (int k = 0; k < n; ++k) v[k] /= d; (i->is_point() ? pts : params).push_back(v); }
  }
  if (rows > 0 && pts.empty()) return false;
  out = rg::from_generators(n, pts, params, lines);
  return true;
}
// The conversion is a pure function of the rows read: memoised on their text (coefficients only).
static void put(std::string& k, const Coefficient& c) { std::ostringstream s; s << c; k += s.str(); k += ','; }
static std::unordered_map<std::string, int> CMEMO, GMEMO;     // text -> class id, -1 = malformed
static RGrid value_of(const PPL::Congruence_System& cs, int n) {
  std::string k = std::to_string(n) + "|";
  for (PPL::Congruence_System::const_iterator i = cs.begin(), e = cs.end(); i != e; ++i) {
    for (int j = 0; j < n && j < (int)i->space_dimension(); ++j) put(k, i->coefficient(Variable(j)));
    k += '/'; put(k, i->inhomogeneous_term()); put(k, i->modulus()); k += ';';
  }
  std::unordered_map<std::string, int>::iterator it = CMEMO.find(k);
  if (it != CMEMO.end()) return CL[it->second];
  int id = CL.classify(value_of_raw(cs, n));
  CMEMO[k] = id;
  return CL[id];
}
static bool value_of(const PPL::Grid_Generator_System& gs, int n, RGrid& out) {
  std::string k = std::to_string(n) + "|";
  for (PPL::Grid_Generator_System::const_iterator i = gs.begin(), e = gs.end(); i != e; ++i) {
    k += i->is_line() ? 'l' : i->is_point() ? 'p' : 'q';
    for (int j = 0; j < n && j < (int)i->space_dimension(); ++j) put(k, i->coefficient(Variable(j)));
    if (!i->is_line()) { k += '/'; put(k, i->divisor()); }
    k += ';';
  }
  std::unordered_map<std::string, int>::iterator it = GMEMO.find(k);
  if (it != GMEMO.end()) { if (it->second < 0) return false; out = CL[it->second]; return true; }
  RGrid v; bool ok = value_of_raw(gs, n, v);
  int id = ok ? CL.classify(v) : -1;
  GMEMO[k] = id;
  if (ok) out = v;
  return ok;
}
// affine hull of the solutions of a system of equality constraints
static RGrid value_of(const PPL::Constraint_System& cs, int n, bool& only_equalities) {
  RGrid g = RGrid::universe(n); only_equalities = true;
  for (PPL::Constraint_System::const_iterator i = cs.begin(), e = cs.end(); i != e; ++i) {
    Vec a(n, Q(0));
    for (int k = 0; k < n && k < (int)i->space_dimension(); ++k) a[k] = cq(i->coefficient(Variable(k)));
    if (!i->is_equality()) {
      // trivially true rows are harmless, trivially false ones denote the empty set
      if (rg::is_zero(a)) { Q b = cq(i->inhomogeneous_term()); bool sat = i->is_strict_inequality() ? b > 0 : b >= 0; if (!sat) g = RGrid::bottom(n); continue; }
      only_equalities = false; continue;
    }
    g = rg::add_congruence(g, Cong(a, cq(i->inhomogeneous_term()), Q(0)));
  }
  return g;
}
static RGrid affine_hull(const RGrid& g) {
  if (g.empty) return g;
  Mat lines = g.L; lines.insert(lines.end(), g.B.begin(), g.B.end());
  Mat pts(1, g.p);
  return rg::from_generators(g.n, pts, Mat(), lines);
}

// ------------------------------------------------------------------ states
struct State { Grid* g; int dim; int cls; int parent; int op; int depth; std::string sig; };
static std::vector<State> ST;

static Grid* clone(const Grid& s) {
  Grid* c = new Grid(0, PPL::UNIVERSE);
  c->con_sys = s.con_sys;
  c->gen_sys = s.gen_sys;
  c->status = s.status;
  c->space_dim = s.space_dim;
  c->dim_kinds = s.dim_kinds;
  return c;
}
typedef std::unique_ptr<Grid> GP;
static GP cl(const Grid& s) { return GP(clone(s)); }

static bool gens_divisor_ne_1(const PPL::Grid_Generator_System& gs) {
  for (PPL::Grid_Generator_System::const_iterator i = gs.begin(), e = gs.end(); i != e; ++i) if (!i->is_line() && i->divisor() != 1) return true;
  return false;
}
static std::string signature(const Grid& p) {
  std::string s;
  const Grid::Status& st = p.status;
  s += st.test_empty() ? 'E' : '-';
  s += st.test_zero_dim_univ() ? 'Z' : '-';
  s += st.test_c_up_to_date() ? 'C' : '-';
  s += st.test_g_up_to_date() ? 'G' : '-';
  s += st.test_c_minimized() ? 'c' : '-';
  s += st.test_g_minimized() ? 'g' : '-';
  // shape of the stored systems (read only): several points, non-unit divisor, redundant congruence rows
  int npts = 0; for (PPL::Grid_Generator_System::const_iterator i = p.gen_sys.begin(), e = p.gen_sys.end(); i != e; ++i) if (i->is_point()) ++npts;
  s += npts > 1 ? 'M' : '-';
  s += gens_divisor_ne_1(p.gen_sys) ? 'D' : '-';
  s += p.con_sys.num_rows() > p.space_dim + 1 ? 'R' : '-';
  return s;
}

// ------------------------------------------------------------------ operations
struct Ctx { int dim; int cls; int ocls; int odim; };
struct Op {
  std::string name;
  bool binary;
  std::function<bool(const Ctx&)> ok;
  std::function<std::string(Grid&, const Grid*)> apply;                       // returns the textual return value
  std::function<RGrid(const RGrid&, const RGrid*)> refv;                       // expected value
  std::function<std::string(const RGrid&, const RGrid*)> refret;               // expected return value (optional)
  // relational oracle (instead of refv): "" if fine, else the clause
  std::function<std::string(const RGrid& before, const RGrid* operand, const RGrid& after, const std::string& ret)> relcheck;
  bool builder, core, observer;
  Op() : binary(false), builder(false), core(false), observer(false) {}
};
static std::vector<Op> OPS;
static std::string trigger_for_op(const Op& op, const Grid& before, const Grid* operand, int cls);
static std::string site_of(const std::string& name);
static bool cempty(int cls) { return CL[cls].empty; }
static const char* relsym_name(int r) { static const char* n[] = {"<", "<=", "==", ">=", ">"}; return n[r]; }
static PPL::Relation_Symbol relsym_ppl(int r) {
  switch (r) { case 0: return PPL::LESS_THAN; case 1: return PPL::LESS_OR_EQUAL; case 2: return PPL::EQUAL; case 3: return PPL::GREATER_OR_EQUAL; default: return PPL::GREATER_THAN; }
}
static std::vector<int> mask_vars(int mask) { std::vector<int> v; for (int i = 0; i < 3; ++i) if (mask & (1 << i)) v.push_back(i); return v; }
static std::string mask_str(int mask) { std::string s; for (int i = 0; i < 3; ++i) if (mask & (1 << i)) s += char('A' + i); return s; }
static int mask_dim(int mask) { int d = 0; for (int i = 0; i < 3; ++i) if (mask & (1 << i)) d = i + 1; return d; }
static PPL::Variables_Set mask_set(int mask) { PPL::Variables_Set vs; for (int i = 0; i < 3; ++i) if (mask & (1 << i)) vs.insert(Variable(i)); return vs; }
static RGrid add_gg(const RGrid& v, const GG& g) {
  int n = v.n;
  if (g.t == 'p') { if (v.empty) { Mat pts(1, g.vec(n)); return rg::from_generators(n, pts, Mat(), Mat()); }
    Mat pts; pts.push_back(v.p); pts.push_back(g.vec(n)); return rg::from_generators(n, pts, v.B, v.L); }
  RG_ASSERT(!v.empty);
  Mat pts(1, v.p), params = v.B, lines = v.L;
  (g.t == 'q' ? params : lines).push_back(g.vec(n));
  return rg::from_generators(n, pts, params, lines);
}
static bool is_core(const CG& c) { for (size_t i = 0; i < CGM_CORE.size(); ++i) if (CGM_CORE[i].str() == c.str()) return true; return false; }

static void build_ops() {
  // ---- builders: add_congruence
  for (size_t i = 0; i < CGM.size(); ++i) {
    CG c = CGM[i];
    Op o; o.name = "add_congruence(" + c.str() + ")"; o.builder = true; o.core = is_core(c);
    o.ok = [c](const Ctx& x) { return fits(c.e, x.dim); };
    o.apply = [c](Grid& p, const Grid*) { p.add_congruence(c.ppl()); return std::string(); };
    o.refv = [c](const RGrid& v, const RGrid*) { return rg::add_congruence(v, c.ref(v.n)); };
    OPS.push_back(o);
  }
  // ---- builders: add_grid_generator
  for (size_t i = 0; i < GGM.size(); ++i) {
    GG g = GGM[i];
    Op o; o.name = "add_grid_generator(" + g.str() + ")"; o.builder = true; o.core = (i == 0 || i == 1 || i == 4 || i == 5 || i == 6 || i == 8 || i == 11);
    o.ok = [g](const Ctx& x) {
      if (!g.fits(x.dim)) return false;
      if (g.t != 'p' && cempty(x.cls)) return false;            // throws: belongs to C14
      if (g.t == 'l' && g.zero(x.dim)) return false;
      if (g.t == 'q' && x.dim == 0) return false;
      return true; };
    o.apply = [g](Grid& p, const Grid*) { p.add_grid_generator(g.ppl(p.space_dimension())); return std::string(); };
    o.refv = [g](const RGrid& v, const RGrid*) { return add_gg(v, g); };
    OPS.push_back(o);
  }
  // ---- builders: state-changing observers
  struct Obs { const char* n; std::function<void(Grid&)> f; };
  std::vector<Obs> obs = {
    {"congruences()", [](Grid& p) { (void)p.congruences(); }},
    {"grid_generators()", [](Grid& p) { (void)p.grid_generators(); }},
    {"minimized_congruences()", [](Grid& p) { (void)p.minimized_congruences(); }},
    {"minimized_grid_generators()", [](Grid& p) { (void)p.minimized_grid_generators(); }},
    {"is_empty()", [](Grid& p) { (void)p.is_empty(); }},
    {"is_universe()", [](Grid& p) { (void)p.is_universe(); }},
    {"relation_with(A>=0)", [](Grid& p) { if (p.space_dimension() > 0) (void)p.relation_with(Variable(0) >= 0); }},
    {"constrains(A)", [](Grid& p) { if (p.space_dimension() > 0) (void)p.constrains(Variable(0)); }},
  };
  for (size_t i = 0; i < obs.size(); ++i) {
    Obs ob = obs[i];
    Op o; o.name = ob.n; o.builder = true; o.core = (i < 5 || i == 6); o.observer = true;
    o.ok = [](const Ctx&) { return true; };
    o.apply = [ob](Grid& p, const Grid*) { ob.f(p); return std::string(); };
    o.refv = [](const RGrid& v, const RGrid*) { return v; };
    OPS.push_back(o);
  }

  // =================================================================== phase-B transformers
  // add_congruences / add_recycled_congruences / refine_with_congruence(s)
  {
    int pairs[][2] = {{0, 9}, {5, 24}, {13, 30}, {44, 2}, {50, 1}, {18, 19}, {6, 38}};
    for (int kind = 0; kind < 3; ++kind) for (auto& pr : pairs) {
      if (pr[0] >= (int)CGM.size() || pr[1] >= (int)CGM.size()) continue;
      CG a = CGM[pr[0]], b = CGM[pr[1]];
      const char* nm = kind == 0 ? "add_congruences" : kind == 1 ? "add_recycled_congruences" : "refine_with_congruences";
      Op o; o.name = std::string(nm) + "({" + a.str() + "," + b.str() + "})";
      o.ok = [a, b](const Ctx& x) { return fits(a.e, x.dim) && fits(b.e, x.dim); };
      o.apply = [a, b, kind](Grid& p, const Grid*) {
        PPL::Congruence_System cs; cs.insert(a.ppl()); cs.insert(b.ppl());
        if (kind == 0) p.add_congruences(cs); else if (kind == 1) p.add_recycled_congruences(cs); else p.refine_with_congruences(cs);
        return std::string(); };
      o.refv = [a, b](const RGrid& v, const RGrid*) { return rg::add_congruence(rg::add_congruence(v, a.ref(v.n)), b.ref(v.n)); };
      OPS.push_back(o);
    }
    for (size_t i = 0; i < CGM.size(); i += 3) {
      CG c = CGM[i];
      Op o; o.name = "refine_with_congruence(" + c.str() + ")";
      o.ok = [c](const Ctx& x) { return fits(c.e, x.dim); };
      o.apply = [c](Grid& p, const Grid*) { p.refine_with_congruence(c.ppl()); return std::string(); };
      o.refv = [c](const RGrid& v, const RGrid*) { return rg::add_congruence(v, c.ref(v.n)); };
      OPS.push_back(o);
    }
  }
  // constraints: add_constraint(s) with equalities and trivial inequalities; refine_with_constraint(s) with anything
  {
    using ref::EQ; using ref::GE; using ref::GT;
    std::vector<CN> eqs = { CN(LE({1, 0}, -1), EQ), CN(LE({1, 1}, 0), EQ), CN(LE({2, -1}, -1), EQ), CN(LE({0, 3}, -1), EQ), CN(LE({0, 0}, 0), EQ), CN(LE({0, 0}, 1), EQ),
                            CN(LE({0, 0}, 1), GE), CN(LE({0, 0}, 0), GE), CN(LE({0, 0}, -1), GE), CN(LE({0, 0}, 0), GT), CN(LE({0, 0}, 2), GT) };
    std::vector<CN> ineqs = { CN(LE({1, 0}, 0), GE), CN(LE({-1, 1}, 2), GT), CN(LE({0, 1}, -1), GE) };
    auto refc = [](const RGrid& v, const CN& c) -> RGrid {
      if (v.empty) return v;
      Vec a = levec(c.e, v.n);
      if (c.k == ref::EQ) return rg::add_congruence(v, Cong(a, Q(c.e.b), Q(0)));
      if (rg::is_zero(a)) { bool sat = c.k == ref::GT ? c.e.b > 0 : c.e.b >= 0; return sat ? v : RGrid::bottom(v.n); }
      return v;    // non-trivial inequality: ignored by refine_with_constraint (add_constraint throws: C14)
    };
    for (int kind = 0; kind < 2; ++kind) {
      std::vector<CN> menu = eqs; if (kind == 1) menu.insert(menu.end(), ineqs.begin(), ineqs.end());
      for (size_t i = 0; i < menu.size(); ++i) {
        CN c = menu[i];
        Op o; o.name = std::string(kind ? "refine_with_constraint(" : "add_constraint(") + c.str() + ")";
        o.ok = [c](const Ctx& x) { return fits(c.e, x.dim); };
        o.apply = [c, kind](Grid& p, const Grid*) { if (kind) p.refine_with_constraint(c.ppl()); else p.add_constraint(c.ppl()); return std::string(); };
        o.refv = [c, refc](const RGrid& v, const RGrid*) { return refc(v, c); };
        OPS.push_back(o);
      }
      size_t pairs[][2] = {{0, 1}, {2, 6}, {3, 8}, {1, 9}, {4, 0}};
      for (int rec = 0; rec < 2; ++rec) for (auto& pr : pairs) {
        CN a = menu[pr[0]], b = menu[pr[1]];
        Op o; o.name = std::string(kind ? "refine_with_constraints" : rec ? "add_recycled_constraints" : "add_constraints") + "({" + a.str() + "," + b.str() + "})";
        if (kind && rec) continue;
        o.ok = [a, b](const Ctx& x) { return fits(a.e, x.dim) && fits(b.e, x.dim); };
        o.apply = [a, b, kind, rec](Grid& p, const Grid*) {
          PPL::Constraint_System cs; cs.insert(a.ppl()); cs.insert(b.ppl());
          if (kind) p.refine_with_constraints(cs); else if (rec) p.add_recycled_constraints(cs); else p.add_constraints(cs);
          return std::string(); };
        o.refv = [a, b, refc](const RGrid& v, const RGrid*) { return refc(refc(v, a), b); };
        OPS.push_back(o);
      }
      if (kind == 1) { // refinement with a system containing a proper inequality
        CN a = ineqs[0], b = eqs[1];
        Op o; o.name = "refine_with_constraints({" + a.str() + "," + b.str() + "})";
        o.ok = [a, b](const Ctx& x) { return fits(a.e, x.dim) && fits(b.e, x.dim); };
        o.apply = [a, b](Grid& p, const Grid*) { PPL::Constraint_System cs; cs.insert(a.ppl()); cs.insert(b.ppl()); p.refine_with_constraints(cs); return std::string(); };
        o.refv = [a, b, refc](const RGrid& v, const RGrid*) { return refc(refc(v, a), b); };
        OPS.push_back(o);
      }
    }
  }
  // add_grid_generators / add_recycled_grid_generators (pairs)
  {
    int gp[][2] = {{1, 6}, {3, 11}, {8, 5}, {2, 4}, {12, 0}, {9, 7}};
    for (int rec = 0; rec < 2; ++rec) for (auto& pr : gp) {
      GG a = GGM[pr[0]], b = GGM[pr[1]];
      Op o; o.name = std::string(rec ? "add_recycled_grid_generators" : "add_grid_generators") + "({" + a.str() + "," + b.str() + "})";
      o.ok = [a, b](const Ctx& x) {
        if (!a.fits(x.dim) || !b.fits(x.dim) || x.dim == 0) return false;
        if ((a.t == 'l' && a.zero(x.dim)) || (b.t == 'l' && b.zero(x.dim))) return false;
        if (cempty(x.cls) && a.t != 'p' && b.t != 'p') return false;
        return true; };
      o.apply = [a, b, rec](Grid& p, const Grid*) {
        int d = p.space_dimension(); PPL::Grid_Generator_System gs; gs.insert(a.ppl(d)); gs.insert(b.ppl(d));
        if (rec) p.add_recycled_grid_generators(gs); else p.add_grid_generators(gs);
        return std::string(); };
      o.refv = [a, b](const RGrid& v, const RGrid*) { GG f = a, s = b; if (f.t != 'p' && s.t == 'p') std::swap(f, s); return add_gg(add_gg(v, f), s); };
      OPS.push_back(o);
    }
  }
  // affine_image / affine_preimage
  bool TH = ARGS.thorough();
  std::vector<long> dens = TH ? std::vector<long>{1, 2, -1, -3} : std::vector<long>{1, 2, -3};
  for (int v = 0; v < MAXDIM; ++v) for (size_t ei = 0; ei < EM.size(); ++ei) for (long d : dens) for (int pre = 0; pre < 2; ++pre) {
    LE e = EM[ei];
    if (v == 2 && (ei % 3) != 0) continue;
    if (!TH && d != 1 && (ei % 2) == 1) continue;
    Op o; o.name = std::string(pre ? "affine_preimage(" : "affine_image(") + char('A' + v) + "," + e.str() + "," + std::to_string(d) + ")";
    o.ok = [e, v](const Ctx& x) { return v < x.dim && fits(e, x.dim); };
    o.apply = [e, v, d, pre](Grid& p, const Grid*) {
      if (pre) p.affine_preimage(Variable(v), e.ppl(), Coefficient(d)); else p.affine_image(Variable(v), e.ppl(), Coefficient(d));
      return std::string(); };
    o.refv = [e, v, d, pre](const RGrid& g, const RGrid*) {
      return pre ? rg::affine_preimage(g, v, levec(e, g.n), Q(e.b), Q(d)) : rg::affine_image(g, v, levec(e, g.n), Q(e.b), Q(d)); };
    OPS.push_back(o);
  }
  // generalized_affine_image / preimage, variable form: congruence relation with modulus; other symbols = cylindrification
  {
    std::vector<size_t> eidx = TH ? std::vector<size_t>{0, 1, 6, 8, 10, 11, 2, 12} : std::vector<size_t>{0, 1, 8, 11, 12};
    std::vector<long> dd = TH ? std::vector<long>{1, 2, -3} : std::vector<long>{1, 2};
    std::vector<long> mods = TH ? std::vector<long>{0, 1, 2, -3} : std::vector<long>{0, 2, -3};
    for (int v = 0; v < 2; ++v) for (size_t ei : eidx) for (long d : dd) for (int rel = 0; rel < 5; ++rel) for (long m : mods) for (int pre = 0; pre < 2; ++pre) {
      if (rel != 2 && (m != 0 || d != 1)) continue;            // modulus with an order relation throws (C14); d irrelevant there
      LE e = EM[ei];
      Op o; o.name = std::string(pre ? "generalized_affine_preimage(" : "generalized_affine_image(") + char('A' + v) + "," + relsym_name(rel) + "," + e.str() + "," + std::to_string(d) + "," + std::to_string(m) + ")";
      o.ok = [e, v](const Ctx& x) { return v < x.dim && fits(e, x.dim); };
      o.apply = [e, v, d, rel, m, pre](Grid& p, const Grid*) {
        if (pre) p.generalized_affine_preimage(Variable(v), relsym_ppl(rel), e.ppl(), Coefficient(d), Coefficient(m));
        else p.generalized_affine_image(Variable(v), relsym_ppl(rel), e.ppl(), Coefficient(d), Coefficient(m));
        return std::string(); };
      o.refv = [e, v, d, rel, m, pre](const RGrid& g, const RGrid*) {
        if (rel != 2) return rg::unconstrain(g, std::vector<int>(1, v));
        return rg::rel_apply(g, rg::rel_var(g.n, v, levec(e, g.n), Q(e.b), Q(d), Q(m)), !pre); };
      OPS.push_back(o);
    }
  }
  // generalized_affine_image / preimage, expression form
  {
    std::vector<LE> lhs = {LE({1, 0}, 0), LE({1, 1}, 0), LE({2, -1}, 1), LE({0, 0}, 1), LE({0, -1}, 0), LE({-1, 0}, 2), LE({0, 3}, 0)};
    std::vector<size_t> ridx = {0, 1, 6, 10, 11, 8};
    std::vector<long> mods = {0, 1, 2, -3};
    if (!TH) { lhs.resize(5); ridx = {0, 6, 11, 8}; mods = {0, 2, -3}; }
    for (const LE& l : lhs) for (size_t ri : ridx) for (int rel = 0; rel < 5; ++rel) for (long m : mods) for (int pre = 0; pre < 2; ++pre) {
      if (rel != 2 && m != 0) continue;
      LE r = EM[ri];
      Op o; o.name = std::string(pre ? "generalized_affine_preimage(" : "generalized_affine_image(") + l.str() + "," + relsym_name(rel) + "," + r.str() + "," + std::to_string(m) + ")";
      o.ok = [l, r](const Ctx& x) { return fits(l, x.dim) && fits(r, x.dim); };
      o.apply = [l, r, rel, m, pre](Grid& p, const Grid*) {
        if (pre) p.generalized_affine_preimage(l.ppl(), relsym_ppl(rel), r.ppl(), Coefficient(m));
        else p.generalized_affine_image(l.ppl(), relsym_ppl(rel), r.ppl(), Coefficient(m));
        return std::string(); };
      o.refv = [l, r, rel, m, pre](const RGrid& g, const RGrid*) {
        if (rel != 2) { std::vector<int> vs; for (int i = 0; i < g.n && i < (int)l.a.size(); ++i) if (l.a[i]) vs.push_back(i); return rg::unconstrain(g, vs); }
        return rg::rel_apply(g, rg::rel_lhs(g.n, levec(l, g.n), Q(l.b), levec(r, g.n), Q(r.b), Q(m)), !pre); };
      OPS.push_back(o);
    }
  }
  // bounded_affine_image / preimage: documented as an upward approximation = cylindrification on var
  {
    size_t lbub[][2] = {{10, 11}, {0, 4}, {1, 6}, {7, 8}};
    long dd[] = {1, -2};
    for (int v = 0; v < 2; ++v) for (auto& lu : lbub) for (long d : dd) for (int pre = 0; pre < 2; ++pre) {
      LE lb = EM[lu[0]], ub = EM[lu[1]];
      Op o; o.name = std::string(pre ? "bounded_affine_preimage(" : "bounded_affine_image(") + char('A' + v) + "," + lb.str() + "," + ub.str() + "," + std::to_string(d) + ")";
      o.ok = [lb, ub, v](const Ctx& x) { return v < x.dim && fits(lb, x.dim) && fits(ub, x.dim); };
      o.apply = [lb, ub, v, d, pre](Grid& p, const Grid*) {
        if (pre) p.bounded_affine_preimage(Variable(v), lb.ppl(), ub.ppl(), Coefficient(d)); else p.bounded_affine_image(Variable(v), lb.ppl(), ub.ppl(), Coefficient(d));
        return std::string(); };
      o.refv = [v](const RGrid& g, const RGrid*) { return rg::unconstrain(g, std::vector<int>(1, v)); };
      OPS.push_back(o);
    }
  }
  // unconstrain
  for (int mask = 1; mask < (1 << MAXDIM); ++mask) for (int single = 0; single < 2; ++single) {
    if (single && (mask & (mask - 1))) continue;
    Op o; o.name = std::string(single ? "unconstrain(var " : "unconstrain({") + mask_str(mask) + (single ? ")" : "})");
    o.ok = [mask](const Ctx& x) { return mask_dim(mask) <= x.dim; };
    o.apply = [mask, single](Grid& p, const Grid*) { if (single) p.unconstrain(Variable(mask_vars(mask)[0])); else p.unconstrain(mask_set(mask)); return std::string(); };
    o.refv = [mask](const RGrid& g, const RGrid*) { return rg::unconstrain(g, mask_vars(mask)); };
    OPS.push_back(o);
  }
  { Op o; o.name = "topological_closure_assign()"; o.ok = [](const Ctx&) { return true; };
    o.apply = [](Grid& p, const Grid*) { p.topological_closure_assign(); return std::string(); };
    o.refv = [](const RGrid& g, const RGrid*) { return g; }; OPS.push_back(o); }
  // dimension changes
  for (int m = 0; m <= 2; ++m) for (int proj = 0; proj < 2; ++proj) {
    Op o; o.name = std::string(proj ? "add_space_dimensions_and_project(" : "add_space_dimensions_and_embed(") + std::to_string(m) + ")";
    o.ok = [](const Ctx&) { return true; };
    o.apply = [m, proj](Grid& p, const Grid*) { if (proj) p.add_space_dimensions_and_project(m); else p.add_space_dimensions_and_embed(m); return std::string(); };
    o.refv = [m, proj](const RGrid& g, const RGrid*) { return rg::add_dims(g, m, !proj); };
    OPS.push_back(o);
  }
  for (int mask = 0; mask < (1 << MAXDIM); ++mask) {
    Op o; o.name = "remove_space_dimensions({" + mask_str(mask) + "})";
    o.ok = [mask](const Ctx& x) { return mask_dim(mask) <= x.dim; };
    o.apply = [mask](Grid& p, const Grid*) { p.remove_space_dimensions(mask_set(mask)); return std::string(); };
    o.refv = [mask](const RGrid& g, const RGrid*) { return rg::remove_dims(g, mask_vars(mask)); };
    OPS.push_back(o);
  }
  for (int nd = 0; nd <= MAXDIM; ++nd) {
    Op o; o.name = "remove_higher_space_dimensions(" + std::to_string(nd) + ")";
    o.ok = [nd](const Ctx& x) { return nd <= x.dim; };
    o.apply = [nd](Grid& p, const Grid*) { p.remove_higher_space_dimensions(nd); return std::string(); };
    o.refv = [nd](const RGrid& g, const RGrid*) { std::vector<int> vs; for (int i = nd; i < g.n; ++i) vs.push_back(i); return rg::remove_dims(g, vs); };
    OPS.push_back(o);
  }
  // map_space_dimensions: every partial injective map of <= 2 dimensions onto an initial segment
  for (int a = -1; a <= 2; ++a) for (int b = -2; b <= 2; ++b) {
    if (b >= 0 && a == b) continue;
    std::vector<int> pf; pf.push_back(a); if (b != -2) pf.push_back(b);
    std::vector<int> img; for (int x : pf) if (x >= 0) img.push_back(x);
    std::sort(img.begin(), img.end());
    bool okimg = true; for (size_t i = 0; i < img.size(); ++i) if (img[i] != (int)i) okimg = false;
    if (!okimg) continue;
    Op o; o.name = "map_space_dimensions(" + std::to_string(a) + (b != -2 ? "," + std::to_string(b) : "") + ")";
    int nd = (int)pf.size();
    o.ok = [nd](const Ctx& x) { return x.dim == nd; };
    o.apply = [pf](Grid& p, const Grid*) { PPL::Partial_Function f; for (size_t i = 0; i < pf.size(); ++i) if (pf[i] >= 0) f.insert(i, pf[i]); p.map_space_dimensions(f); return std::string(); };
    o.refv = [pf](const RGrid& g, const RGrid*) { return rg::map_dims(g, pf); };
    OPS.push_back(o);
  }
  for (int v = 0; v < 2; ++v) for (int m = 0; m <= 2; ++m) {
    Op o; o.name = std::string("expand_space_dimension(") + char('A' + v) + "," + std::to_string(m) + ")";
    o.ok = [v](const Ctx& x) { return v < x.dim; };
    o.apply = [v, m](Grid& p, const Grid*) { p.expand_space_dimension(Variable(v), m); return std::string(); };
    o.refv = [v, m](const RGrid& g, const RGrid*) { return m == 0 ? g : rg::expand_dim(g, v, m); };
    OPS.push_back(o);
  }
  { int folds[][2] = {{2, 0}, {1, 1}, {0, 0}, {0, 1}, {6, 0}, {4, 1}};      // (mask of folded variables, destination)
    for (auto& f : folds) {
      int mask = f[0], dst = f[1];
      if (mask_dim(mask) > MAXDIM) continue;
      Op o; o.name = "fold_space_dimensions({" + mask_str(mask) + "}," + char('A' + dst) + ")";
      o.ok = [mask, dst](const Ctx& x) { return dst < x.dim && mask_dim(mask) <= x.dim; };
      o.apply = [mask, dst](Grid& p, const Grid*) { p.fold_space_dimensions(mask_set(mask), Variable(dst)); return std::string(); };
      o.refv = [mask, dst](const RGrid& g, const RGrid*) { return rg::fold_dims(g, mask_vars(mask), dst); };
      OPS.push_back(o);
    } }
  // copy construction / assignment / swap: the copy is observed afterwards like any other result
  { Op o; o.name = "Grid(copy)"; o.ok = [](const Ctx&) { return true; };
    o.apply = [](Grid& p, const Grid*) { Grid c(p); p.m_swap(c); return std::string(); };
    o.refv = [](const RGrid& g, const RGrid*) { return g; }; OPS.push_back(o); }
  for (int tgt = 0; tgt < 4; ++tgt) {
    static const char* tn[] = {"universe(same dim)", "empty(same dim)", "universe(dim+1)", "minimized {A=0 mod 2}"};
    Op o; o.name = std::string("operator=(to ") + tn[tgt] + ")"; o.ok = [](const Ctx&) { return true; };
    o.apply = [tgt](Grid& p, const Grid*) {
      int d = p.space_dimension();
      Grid t(tgt == 2 ? d + 1 : tgt == 3 ? 1 : d, tgt == 1 ? PPL::EMPTY : PPL::UNIVERSE);
      if (tgt == 3) { t.add_congruence((Variable(0) %= 0) / 2); (void)t.minimized_grid_generators(); }
      t = p; p.m_swap(t); return std::string(); };
    o.refv = [](const RGrid& g, const RGrid*) { return g; }; OPS.push_back(o);
  }
  // ---- binary
  struct Bin { const char* n; std::function<std::string(Grid&, const Grid&)> f; std::function<RGrid(const RGrid&, const RGrid&)> r; };
  std::vector<Bin> bins = {
    {"intersection_assign", [](Grid& p, const Grid& q) { p.intersection_assign(q); return std::string(); }, [](const RGrid& a, const RGrid& b) { return rg::meet(a, b); }},
    {"upper_bound_assign", [](Grid& p, const Grid& q) { p.upper_bound_assign(q); return std::string(); }, [](const RGrid& a, const RGrid& b) { return rg::join(a, b); }},
    {"difference_assign", [](Grid& p, const Grid& q) { p.difference_assign(q); return std::string(); }, [](const RGrid& a, const RGrid& b) { return rg::difference(a, b); }},
    {"time_elapse_assign", [](Grid& p, const Grid& q) { p.time_elapse_assign(q); return std::string(); }, [](const RGrid& a, const RGrid& b) { return rg::time_elapse(a, b); }},
    {"operator=(operand)", [](Grid& p, const Grid& q) { p = q; return std::string(); }, [](const RGrid&, const RGrid& b) { return b; }},
  };
  for (size_t i = 0; i < bins.size(); ++i) {
    Bin b = bins[i];
    Op o; o.name = b.n; o.binary = true;
    bool anydim = std::string(b.n) == "operator=(operand)";
    o.ok = [anydim](const Ctx& x) { return anydim || x.odim == x.dim; };
    o.apply = [b](Grid& p, const Grid* q) { return b.f(p, *q); };
    o.refv = [b](const RGrid& a, const RGrid* q) { return b.r(a, *q); };
    OPS.push_back(o);
  }
  { Op o; o.name = "concatenate_assign"; o.binary = true;
    o.ok = [](const Ctx& x) { return x.dim + x.odim <= 4; };
    o.apply = [](Grid& p, const Grid* q) { p.concatenate_assign(*q); return std::string(); };
    o.refv = [](const RGrid& a, const RGrid* q) { return rg::concatenate(a, *q); };
    OPS.push_back(o); }
  { Op o; o.name = "upper_bound_assign_if_exact"; o.binary = true;
    o.ok = [](const Ctx& x) { return x.odim == x.dim; };
    o.apply = [](Grid& p, const Grid* q) { return std::string(p.upper_bound_assign_if_exact(*q) ? "true" : "false"); };
    o.refv = [](const RGrid& a, const RGrid* q) { return rg::union_is_grid(a, *q) ? rg::join(a, *q) : a; };
    o.refret = [](const RGrid& a, const RGrid* q) { return std::string(rg::union_is_grid(a, *q) ? "true" : "false"); };
    OPS.push_back(o); }
  { Op o; o.name = "simplify_using_context_assign"; o.binary = true;
    o.ok = [](const Ctx& x) { return x.odim == x.dim; };
    o.apply = [](Grid& p, const Grid* q) { return std::string(p.simplify_using_context_assign(*q) ? "true" : "false"); };
    o.relcheck = [](const RGrid& before, const RGrid* q, const RGrid& after, const std::string& ret) -> std::string {
      RGrid m0 = rg::meet(before, *q);
      if (ret == "false" && !m0.empty) return "simplify:false-but-meet-non-empty";     // "if false is returned, the intersection is empty"
      if (m0.empty) return "";
      if (rg::meet(after, *q) != m0) return "simplify:meet-not-preserved";
      return ""; };
    OPS.push_back(o); }
}

// ------------------------------------------------------------------ history text
static std::vector<std::string> history_of(int s) {
  std::vector<std::string> h;
  while (s >= 0 && ST[s].parent >= 0) { h.push_back(OPS[ST[s].op].name); s = ST[s].parent; }
  if (s >= 0) h.push_back("Grid(" + std::to_string(ST[s].dim) + "," + (cempty(ST[s].cls) ? "EMPTY" : "UNIVERSE") + ")");
  std::reverse(h.begin(), h.end());
  return h;
}
static std::string hist_json(int s) {
  std::vector<std::string> h = history_of(s);
  std::string a = "[";
  for (size_t i = 0; i < h.size(); ++i) { if (i) a += ","; a += jstr(h[i]); }
  return a + "]";
}

// ------------------------------------------------------------------ comparing a real grid with a model value
// every description the object currently claims to be up to date, read directly (no lazy computation is triggered);
// returns "" or a description of the disagreement
static std::string stored_mismatch(const Grid& g, int want) {
  int n = g.space_dim;
  if (g.status.test_empty() || g.status.test_zero_dim_univ()) {
    bool e = g.status.test_empty();
    if (e != cempty(want)) return e ? "status says empty" : "status says zero-dim universe";
    return "";
  }
  count(CNT_CHECKS, 2);
  std::string r;
  if (g.status.test_c_up_to_date()) { RGrid v = value_of(g.con_sys, n); if (v != CL[want]) r += "stored congruences (flagged up to date) denote " + v.str() + "; "; }
  if (g.status.test_g_up_to_date()) { RGrid v; bool ok = value_of(g.gen_sys, n, v); if (!ok || v != CL[want]) r += "stored generators (flagged up to date) denote " + (ok ? v.str() : std::string("nothing: no point")) + "; "; }
  return r;
}
static void check_stored(const Grid& g, int want, const std::string& site, const std::string& clause, const std::string& trigger, const std::string& input_json) {
  std::string m = stored_mismatch(g, want);
  if (!m.empty() && violcap().admit(site + "|" + clause + "|" + trigger)) report_violation(site, clause, trigger, input_json, m, cstr(want));
}

// `r` is a scratch object (it will be mutated by observation).  One record per call:
//   value:result!=model          every description PPL gives denotes the same grid, which is not the model value
//   value:descriptions-disagree  the descriptions PPL gives do not all denote the same grid
static bool stored_line_not_primitive(const Grid& g) {
  if (!g.status.test_g_up_to_date()) return false;
  for (PPL::Grid_Generator_System::const_iterator i = g.gen_sys.begin(), e = g.gen_sys.end(); i != e; ++i) if (i->is_line()) {
    Coefficient gcd = 0;
    for (int k = 0; k < (int)g.space_dim; ++k) PPL::gcd_assign(gcd, gcd, i->coefficient(Variable(k)));
    if (gcd != 1) return true;
  }
  return false;
}
static void check_value(Grid& r, int want, const std::string& site, const std::string& trigger0, const std::string& input_json) {
  std::string trigger = trigger0;
  bool line_np = stored_line_not_primitive(r);
  int n = r.space_dimension();
  const RGrid& W = CL[want];
  if (n != W.n) { if (violcap().admit(site + "|dim")) report_violation(site, "value:space-dimension!=model", trigger, input_json, std::to_string(n), std::to_string(W.n)); return; }
  if (!r.OK()) { if (violcap().admit(site + "|OK|" + trigger)) report_violation(site, "invariant:OK()", trigger, input_json, "OK() false", "OK() true"); return; }
  std::string stored = stored_mismatch(r, want);
  GP second(clone(r));
  struct D { const char* what; RGrid v; bool wellformed; size_t rows; };
  std::vector<D> got;
  // observation order 1: congruences, then generators, then the minimized forms; order 2 on the clone: the converse
  PPL::Congruence_System c0 = r.congruences();
  PPL::Grid_Generator_System g1 = r.grid_generators();
  PPL::Grid_Generator_System g2 = second->grid_generators();
  PPL::Congruence_System c3 = second->congruences();
  PPL::Congruence_System c4 = r.minimized_congruences();
  PPL::Grid_Generator_System g5 = second->minimized_grid_generators();
  PPL::Grid_Generator_System g6 = r.minimized_grid_generators();
  PPL::Congruence_System c7 = second->minimized_congruences();
  PPL::Constraint_System k8 = r.constraints();
  bool empty_q = r.is_empty();
  static unsigned okctr = 0;
  bool okk = (ARGS.thorough() || (++okctr & 3) == 0) ? (r.OK() && second->OK()) : true;
  RefGuard guard;
  auto addc = [&](const char* w, const PPL::Congruence_System& cs) { D d; d.what = w; d.v = value_of(cs, n); d.wellformed = true; d.rows = std::distance(cs.begin(), cs.end()); got.push_back(d); };
  auto addg = [&](const char* w, const PPL::Grid_Generator_System& gs) { D d; d.what = w; d.wellformed = value_of(gs, n, d.v); d.rows = std::distance(gs.begin(), gs.end()); got.push_back(d); };
  addc("congruences", c0); addg("generators-after-congruences", g1); addg("generators", g2); addc("congruences-after-generators", c3);
  addc("minimized_congruences", c4); addg("minimized_grid_generators", g5); addg("minimized_grid_generators-after-congruences", g6); addc("minimized_congruences-after-generators", c7);
  count(CNT_CHECKS, got.size() + 3);
  std::string bad; bool any_good = false, all_same = true; const D* firstbad = 0;
  for (size_t i = 0; i < got.size(); ++i) {
    bool good = got[i].wellformed && got[i].v == W;
    if (good) { any_good = true; continue; }
    if (firstbad && (got[i].wellformed != firstbad->wellformed || got[i].v != firstbad->v)) all_same = false;
    if (!firstbad) firstbad = &got[i];
    bad += std::string(got[i].what) + " = " + (got[i].wellformed ? got[i].v.str() : "malformed (no point)") + "; ";
  }
  { bool onlyeq; RGrid kv = value_of(k8, n, onlyeq);
    if (!onlyeq || kv != affine_hull(W)) { bad += "constraints() = " + (onlyeq ? kv.str() : std::string("contains an inequality")) + " instead of the affine hull; "; if (firstbad == 0) all_same = false; } }
  if (empty_q != W.empty) bad += std::string("is_empty() = ") + (empty_q ? "true" : "false") + "; ";
  if (!stored.empty()) bad += stored;
  if (!bad.empty()) {
    std::string clause = (any_good || !all_same) ? "value:descriptions-disagree" : "value:result!=model";
    if (violcap().admit(site + "|" + clause + "|" + trigger)) report_violation(site, clause, trigger, input_json, bad, W.str());
    return;
  }
  // minimized descriptions have the documented cardinalities (n - #lines congruences; 1 + #parameters + #lines generators)
  if (!W.empty && n > 0) {
    size_t wc = n - W.L.size(), wg = 1 + W.B.size() + W.L.size();
    for (size_t i = 4; i < got.size(); ++i) {
      bool isg = (i == 5 || i == 6);
      if (got[i].rows != (isg ? wg : wc) && violcap().admit(site + "|mincard|" + trigger))
        report_violation(site, "minimized:cardinality", trigger, input_json, std::string(got[i].what) + " has " + std::to_string(got[i].rows) + " rows", std::to_string(isg ? wg : wc));
    }
  }
  if (!okk) {
    // Grid::simplify(generators) may leave a line with non-coprime coefficients; the system then changes under a second
    // reduction and OK() rejects it although the denoted grid is right: attributed to simplify, whatever operation came first
    line_np = line_np || stored_line_not_primitive(r) || stored_line_not_primitive(*second);
    if (line_np) { if (violcap().admit("simplify|OK2")) report_violation("Grid::simplify(Grid_Generator_System&)", "invariant:OK()-after-observation", "generator_system_stores_a_line_with_non_coprime_coefficients", input_json, "OK() false", "OK() true"); }
    else if (violcap().admit(site + "|OK2|" + trigger)) report_violation(site, "invariant:OK()-after-observation", trigger, input_json, "OK() false", "OK() true");
  }
}

// ------------------------------------------------------------------ phase A
static std::unordered_map<std::string, int> SEEN;
static long long TRANS_A = 0;
static std::set<std::string> SIGS;

static int add_state(Grid* g, int dim, int cls, int parent, int op, int depth) {
  std::string key = dump_of(*g);
  std::unordered_map<std::string, int>::iterator it = SEEN.find(key);
  if (it != SEEN.end()) {
    if (ST[it->second].cls != cls && violcap().admit("merge"))
      report_violation("Grid", "value:same-dump-different-model", "none",
        J().raw("history", hist_json(parent)).str("op", OPS[op].name).raw("other_history", hist_json(it->second)).done(), cstr(cls), cstr(ST[it->second].cls));
    delete g; return -1;
  }
  State s; s.g = g; s.dim = dim; s.cls = cls; s.parent = parent; s.op = op; s.depth = depth; s.sig = signature(*g);
  SIGS.insert(s.sig);
  ST.push_back(s);
  int id = (int)ST.size() - 1;
  SEEN[key] = id;
  // the clone used everywhere below must be faithful
  { GP c(clone(*g)); if (dump_of(*c) != key) { sink().line(J().str("t", "error").str("msg", "clone is not faithful (dump differs)").done()); _exit(4); } }
  if (!g->OK() && violcap().admit("stateOK")) report_violation("Grid::" + (op >= 0 ? OPS[op].name.substr(0, OPS[op].name.find('(')) : std::string("Grid")), "invariant:OK()", "none", J().raw("history", hist_json(id)).done(), "OK() false", "OK() true");
  check_stored(*g, cls, op >= 0 ? site_of(OPS[op].name) : std::string("Grid::Grid(dim,kind)"), "value:stored-description!=model", (op >= 0 && parent >= 0) ? trigger_for_op(OPS[op], *ST[parent].g, 0, ST[parent].cls) : std::string("none"), J().raw("history", hist_json(id)).str("signature", s.sig).done());
  return id;
}

static void phase_a(int depth_full, int depth_max) {
  for (int dim = 0; dim <= MAXDIM; ++dim) for (int e = 0; e < 2; ++e) {
    Grid* p = new Grid(dim, e ? PPL::EMPTY : PPL::UNIVERSE);
    add_state(p, dim, CL.classify(e ? RGrid::bottom(dim) : RGrid::universe(dim)), -1, -1, 0);
  }
  std::unordered_map<long long, int> refmemo;
  size_t begin = 0;
  for (int d = 1; d <= depth_max; ++d) {
    size_t end = ST.size();
    for (size_t s = begin; s < end; ++s) {
      if (ST[s].dim == 3 && d > depth_full) continue;
      for (size_t oi = 0; oi < OPS.size(); ++oi) {
        const Op& op = OPS[oi];
        if (!op.builder) continue;
        if (d > depth_full && !op.core) continue;
        Ctx cx; cx.dim = ST[s].dim; cx.cls = ST[s].cls; cx.ocls = -1; cx.odim = -1;
        if (!op.ok(cx)) continue;
        Grid* c = clone(*ST[s].g);
        try { op.apply(*c, 0); }
        catch (const std::exception& ex) {
          if (violcap().admit("exc|" + op.name))
            report_violation("Grid::" + op.name.substr(0, op.name.find('(')), "unexpected-exception", "none", J().raw("history", hist_json(s)).str("op", op.name).done(), ex.what(), "no exception");
          delete c; continue;
        }
        ++TRANS_A;
        long long mk = (long long)ST[s].cls * 100000 + oi;
        int ncls;
        std::unordered_map<long long, int>::iterator it = refmemo.find(mk);
        if (it != refmemo.end()) ncls = it->second;
        else { ncls = CL.classify(op.refv(CL[ST[s].cls], 0)); refmemo[mk] = ncls; }
        add_state(c, ST[s].dim, ncls, (int)s, (int)oi, d);
      }
      if ((s & 1023) == 0 && ARGS.left() < ARGS.deadline * 0.6) { fprintf(stderr, "[grid] phase A cut by the time budget at depth %d\n", d); return; }
    }
    begin = end;
  }
}

// ------------------------------------------------------------------ queries
static std::string qs(const Q& q) { return q.get_str(); }
static std::string rel_con_str(const PPL::Poly_Con_Relation& r) {
  std::string s;
  if (r.implies(PPL::Poly_Con_Relation::is_disjoint())) s += "D";
  if (r.implies(PPL::Poly_Con_Relation::strictly_intersects())) s += "X";
  if (r.implies(PPL::Poly_Con_Relation::is_included())) s += "I";
  if (r.implies(PPL::Poly_Con_Relation::saturates())) s += "S";
  return s.empty() ? "-" : s;
}
// expected answers may list alternatives separated by "||" where the documentation leaves a choice
static std::string ref_rel_cong(const RGrid& v, const Cong& c) {
  if (v.empty) return c.m == 0 ? "DIS" : "DIS||DI";      // the documentation reserves "saturates" for equalities
  if (v.n == 0 && c.m != 0 && rg::relation_with(v, c) == rg::REL_INCLUDED) return "I||IS";
  int r = rg::relation_with(v, c);
  if (r == rg::REL_DISJOINT) return "D";
  if (r == rg::REL_INTERSECTS) return "X";
  return c.m == 0 ? "IS" : "I";
}
static std::string ref_rel_con(const RGrid& v, const CN& c) {
  Vec a = levec(c.e, v.n);
  if (c.k == ref::EQ) return ref_rel_cong(v, Cong(a, Q(c.e.b), Q(0)));
  if (v.empty) return "DIS||DI";
  if (!rg::bounds(v, a)) return "X";
  Q val = rg::dot(a, v.p) + Q(c.e.b);
  // "saturates" for inequalities: the text restricts it to equalities, polyhedra use it for "on the hyperplane"; both accepted
  if (c.k == ref::GE) return val > 0 ? "I" : val == 0 ? "IS||I" : "D";
  return val > 0 ? "I" : val == 0 ? "DS||D" : "D";
}
static bool matches(const std::string& got, const std::string& want) {
  size_t p = 0;
  while (p <= want.size()) { size_t q = want.find("||", p); std::string alt = want.substr(p, q == std::string::npos ? std::string::npos : q - p); if (alt == got) return true; if (q == std::string::npos) break; p = q + 2; }
  return false;
}

struct Query {
  std::string name; bool binary;
  std::function<bool(const Ctx&)> ok;
  std::function<std::string(Grid&, const Grid*)> run;
  std::function<std::string(const RGrid&, const RGrid*)> expect;
};
static std::vector<Query> QS;

static std::string maxmin_run(Grid& p, const LE& e, bool maxi, bool with_point) {
  Coefficient n = 77, d = 77; bool incl = false;
  PPL::Generator g = PPL::point();
  bool b;
  Linear_Expression le = e.ppl();
  if (with_point) b = maxi ? p.maximize(le, n, d, incl, g) : p.minimize(le, n, d, incl, g);
  else b = maxi ? p.maximize(le, n, d, incl) : p.minimize(le, n, d, incl);
  if (!b) return (n == 77 && d == 77) ? "false" : "false,outputs-modified";
  if (d == 0) return "true,zero-denominator";
  Q v(to_q(n).get_num(), to_q(d).get_num()); v.canonicalize();
  std::string s = "true," + qs(v) + "," + (incl ? "incl" : "notincl");
  if (with_point) {
    int dim = p.space_dimension();
    if (!g.is_point()) return s + ",wit:NOTAPOINT";
    Vec w(dim, Q(0)); Q gd = to_q(g.divisor());
    for (int i = 0; i < dim && i < (int)g.space_dimension(); ++i) w[i] = to_q(g.coefficient(Variable(i))) / gd;
    Q val = rg::dot(levec(e, dim), w) + Q(e.b);
    s += std::string(",wit:") + (val == v ? "attains" : "WRONGVALUE") + "@" + rg::vec_str(w);
  }
  return s;
}

static void build_queries() {
  auto simple = [](const char* n, std::function<bool(Grid&)> f, std::function<bool(const RGrid&)> r) {
    Query q; q.name = n; q.binary = false; q.ok = [](const Ctx&) { return true; };
    q.run = [f](Grid& p, const Grid*) { return std::string(f(p) ? "true" : "false"); };
    q.expect = [r](const RGrid& v, const RGrid*) { return std::string(r(v) ? "true" : "false"); };
    QS.push_back(q);
  };
  simple("is_empty", [](Grid& p) { return p.is_empty(); }, [](const RGrid& v) { return v.empty; });
  simple("is_universe", [](Grid& p) { return p.is_universe(); }, [](const RGrid& v) { return rg::is_universe(v); });
  simple("is_bounded", [](Grid& p) { return p.is_bounded(); }, [](const RGrid& v) { return rg::is_bounded(v); });
  simple("is_discrete", [](Grid& p) { return p.is_discrete(); }, [](const RGrid& v) { return rg::is_discrete(v); });
  simple("is_topologically_closed", [](Grid& p) { return p.is_topologically_closed(); }, [](const RGrid&) { return true; });
  simple("contains_integer_point", [](Grid& p) { return p.contains_integer_point(); }, [](const RGrid& v) { return rg::contains_integer_point(v); });
  simple("OK", [](Grid& p) { return p.OK(); }, [](const RGrid&) { return true; });
  { Query q; q.name = "affine_dimension"; q.binary = false; q.ok = [](const Ctx&) { return true; };
    q.run = [](Grid& p, const Grid*) { return std::to_string(p.affine_dimension()); };
    q.expect = [](const RGrid& v, const RGrid*) { return std::to_string(rg::affine_dimension(v)); };
    QS.push_back(q); }
  { Query q; q.name = "space_dimension"; q.binary = false; q.ok = [](const Ctx&) { return true; };
    q.run = [](Grid& p, const Grid*) { return std::to_string(p.space_dimension()); };
    q.expect = [](const RGrid& v, const RGrid*) { return std::to_string(v.n); };
    QS.push_back(q); }
  for (int v = 0; v < MAXDIM; ++v) {
    Query q; q.name = std::string("constrains(") + char('A' + v) + ")"; q.binary = false; q.ok = [v](const Ctx& x) { return v < x.dim; };
    q.run = [v](Grid& p, const Grid*) { return std::string(p.constrains(Variable(v)) ? "true" : "false"); };
    q.expect = [v](const RGrid& c, const RGrid*) { return std::string(rg::constrains(c, v) ? "true" : "false"); };
    QS.push_back(q);
  }
  // relation_with(congruence)
  {
    std::vector<CG> rc = CGM;
    rc.push_back(CG(LE({1, 1}, -1), 2)); rc.push_back(CG(LE({1, -2}, 0), 1)); rc.push_back(CG(LE({3, 0}, 0), 2)); rc.push_back(CG(LE({6, 0}, -3), 6)); rc.push_back(CG(LE({1, 1}, 0), 0)); rc.push_back(CG(LE({2, 2}, -1), 0));
    for (size_t i = 0; i < rc.size(); ++i) {
      CG c = rc[i];
      Query q; q.name = "relation_with(" + c.str() + ")"; q.binary = false;
      q.ok = [c](const Ctx& x) { return fits(c.e, x.dim); };
      q.run = [c](Grid& p, const Grid*) { return rel_con_str(p.relation_with(c.ppl())); };
      q.expect = [c](const RGrid& v, const RGrid*) { return ref_rel_cong(v, c.ref(v.n)); };
      QS.push_back(q);
    }
  }
  // relation_with(constraint)
  {
    using ref::EQ; using ref::GE; using ref::GT;
    std::vector<CN> rc = { CN(LE({1, 0}, 0), GE), CN(LE({1, 0}, 0), GT), CN(LE({-1, 0}, 1), GE), CN(LE({0, 1}, -1), GT), CN(LE({1, 1}, 0), GE), CN(LE({2, -1}, 1), GT), CN(LE({-2, 0}, 1), GE),
                           CN(LE({1, 0}, -1), EQ), CN(LE({1, 1}, 0), EQ), CN(LE({2, 0}, -1), EQ), CN(LE({0, 3}, -2), EQ), CN(LE({2, -1}, -1), EQ),
                           CN(LE({0, 0}, 0), EQ), CN(LE({0, 0}, 1), EQ), CN(LE({0, 0}, 0), GE), CN(LE({0, 0}, 1), GE), CN(LE({0, 0}, -1), GE), CN(LE({0, 0}, 0), GT), CN(LE({0, 0}, 1), GT), CN(LE({0, 0}, -1), GT) };
    for (size_t i = 0; i < rc.size(); ++i) {
      CN c = rc[i];
      Query q; q.name = "relation_with(" + c.str() + ")"; q.binary = false;
      q.ok = [c](const Ctx& x) { return fits(c.e, x.dim); };
      q.run = [c](Grid& p, const Grid*) { return rel_con_str(p.relation_with(c.ppl())); };
      q.expect = [c](const RGrid& v, const RGrid*) { return ref_rel_con(v, c); };
      QS.push_back(q);
    }
  }
  // relation_with(grid generator)
  {
    std::vector<GG> rgm = GGM;
    rgm.push_back(GG('p', {1, 0, 0})); rgm.push_back(GG('p', {1, 1, 0})); rgm.push_back(GG('p', {1, 2, 0}, 3)); rgm.push_back(GG('q', {1, 1, 0})); rgm.push_back(GG('q', {2, 0, 0}));
    rgm.push_back(GG('q', {1, 0, 0}, 2)); rgm.push_back(GG('q', {0, 1, 0}, 3)); rgm.push_back(GG('l', {0, 1, 0})); rgm.push_back(GG('l', {2, -1, 0}));
    for (size_t i = 0; i < rgm.size(); ++i) {
      GG g = rgm[i];
      Query q; q.name = "relation_with(grid " + g.str() + ")"; q.binary = false;
      q.ok = [g](const Ctx& x) { return g.fits(x.dim) && !(g.t == 'l' && g.zero(x.dim)) && !(g.t == 'q' && x.dim == 0); };
      q.run = [g](Grid& p, const Grid*) { return std::string(p.relation_with(g.ppl(p.space_dimension())).implies(PPL::Poly_Gen_Relation::subsumes()) ? "subsumes" : "nothing"); };
      q.expect = [g](const RGrid& v, const RGrid*) { return std::string(rg::subsumes(v, g.t, g.vec(v.n)) ? "subsumes" : "nothing"); };
      QS.push_back(q);
    }
  }
  // relation_with(polyhedron generator)
  {
    std::vector<GN> pg = { GN('p', {0, 0}), GN('p', {1, 0}, 2), GN('p', {1, 1}, 3), GN('p', {2, 1}), GN('c', {1, -1}, 2), GN('c', {0, 0}), GN('c', {-1, 2}, 3), GN('r', {1, 0}), GN('r', {1, 1}), GN('r', {0, -1}), GN('l', {1, 0}), GN('l', {1, 1}), GN('l', {2, -1}) };
    for (size_t i = 0; i < pg.size(); ++i) {
      GN g = pg[i];
      Query q; q.name = "relation_with(poly " + g.str() + ")"; q.binary = false;
      q.ok = [g](const Ctx& x) { for (size_t k = x.dim; k < g.v.size(); ++k) if (g.v[k]) return false; bool z = true; for (int k = 0; k < x.dim && k < (int)g.v.size(); ++k) if (g.v[k]) z = false; return !((g.t == 'r' || g.t == 'l') && z); };
      q.run = [g](Grid& p, const Grid*) { GN t = g; t.v.resize(p.space_dimension());
        return std::string(p.relation_with(t.ppl()).implies(PPL::Poly_Gen_Relation::subsumes()) ? "subsumes" : "nothing"); };
      q.expect = [g](const RGrid& v, const RGrid*) {
        Vec w(v.n, Q(0)); bool pt = (g.t == 'p' || g.t == 'c');
        for (int k = 0; k < v.n && k < (int)g.v.size(); ++k) w[k] = pt ? rg::mkq(g.v[k], g.d) : Q(g.v[k]);
        return std::string(rg::subsumes(v, pt ? 'p' : 'l', w) ? "subsumes" : "nothing"); };
      QS.push_back(q);
    }
  }
  // bounds / maximize / minimize / frequency
  for (size_t ei = 0; ei < EM.size(); ++ei) {
    LE e = EM[ei];
    for (int up = 0; up < 2; ++up) {
      Query q; q.name = std::string(up ? "bounds_from_above(" : "bounds_from_below(") + e.str() + ")"; q.binary = false;
      q.ok = [e](const Ctx& x) { return fits(e, x.dim); };
      q.run = [e, up](Grid& p, const Grid*) { return std::string((up ? p.bounds_from_above(e.ppl()) : p.bounds_from_below(e.ppl())) ? "true" : "false"); };
      q.expect = [e](const RGrid& v, const RGrid*) { return std::string(rg::bounds(v, levec(e, v.n)) ? "true" : "false"); };
      QS.push_back(q);
    }
    for (int maxi = 0; maxi < 2; ++maxi) for (int wp = 0; wp < 2; ++wp) {
      Query q; q.name = std::string(maxi ? "maximize(" : "minimize(") + e.str() + (wp ? ",point)" : ")"); q.binary = false;
      q.ok = [e](const Ctx& x) { return fits(e, x.dim); };
      q.run = [e, maxi, wp](Grid& p, const Grid*) { return maxmin_run(p, e, maxi, wp); };
      q.expect = [e, wp](const RGrid& v, const RGrid*) {
        if (v.empty || !rg::bounds(v, levec(e, v.n))) return std::string("false");
        Q val = rg::dot(levec(e, v.n), v.p) + Q(e.b);
        return "true," + qs(val) + ",incl" + (wp ? ",wit:attains" : ""); };
      QS.push_back(q);
    }
    { Query q; q.name = "frequency(" + e.str() + ")"; q.binary = false;
      q.ok = [e](const Ctx& x) { return fits(e, x.dim); };
      q.run = [e](Grid& p, const Grid*) {
        Coefficient fn = 77, fd = 77, vn = 77, vd = 77;
        if (!p.frequency(e.ppl(), fn, fd, vn, vd)) return std::string((fn == 77 && fd == 77 && vn == 77 && vd == 77) ? "false" : "false,outputs-modified");
        if (fd == 0 || vd == 0) return std::string("true,zero-denominator");
        Q f(to_q(fn).get_num(), to_q(fd).get_num()); f.canonicalize(); Q v(to_q(vn).get_num(), to_q(vd).get_num()); v.canonicalize();
        return "true,freq=" + qs(f) + ",val=" + qs(v); };
      q.expect = [e](const RGrid& v, const RGrid*) {
        rg::Freq fr = rg::frequency(v, levec(e, v.n), Q(e.b));
        if (!fr.defined) return std::string("false");
        Q c = rg::closest_to_zero(fr.v0, fr.f);
        std::string s = "true,freq=" + qs(fr.f) + ",val=" + qs(c);
        if (fr.f != 0 && c * 2 == fr.f) s += "||true,freq=" + qs(fr.f) + ",val=" + qs(Q(-c));     // two values at the same distance from zero
        return s; };
      QS.push_back(q); }
  }
  // binary predicates
  struct BP { const char* n; std::function<bool(Grid&, const Grid&)> f; std::function<bool(const RGrid&, const RGrid&)> r; };
  std::vector<BP> bps = {
    {"contains", [](Grid& p, const Grid& q) { return p.contains(q); }, [](const RGrid& a, const RGrid& b) { return rg::subset(b, a); }},
    {"strictly_contains", [](Grid& p, const Grid& q) { return p.strictly_contains(q); }, [](const RGrid& a, const RGrid& b) { return rg::subset(b, a) && a != b; }},
    {"is_disjoint_from", [](Grid& p, const Grid& q) { return p.is_disjoint_from(q); }, [](const RGrid& a, const RGrid& b) { return rg::meet(a, b).empty; }},
    {"operator==", [](Grid& p, const Grid& q) { return p == q; }, [](const RGrid& a, const RGrid& b) { return a == b; }},
    {"operator!=", [](Grid& p, const Grid& q) { return p != q; }, [](const RGrid& a, const RGrid& b) { return a != b; }},
  };
  for (size_t i = 0; i < bps.size(); ++i) {
    BP b = bps[i];
    bool anydim = std::string(b.n).compare(0, 8, "operator") == 0;
    Query q; q.name = b.n; q.binary = true; q.ok = [anydim](const Ctx& x) { return anydim || x.odim == x.dim; };
    q.run = [b](Grid& p, const Grid* o) { return std::string(b.f(p, *o) ? "true" : "false"); };
    q.expect = [b](const RGrid& v, const RGrid* o) { if (v.n != o->n) return std::string(b.r == nullptr ? "" : (std::string(b.n) == "operator!=" ? "true" : "false")); return std::string(b.r(v, *o) ? "true" : "false"); };
    QS.push_back(q);
  }
}
static std::string strip_at(const std::string& s) { size_t p = s.find('@'); return p == std::string::npos ? s : s.substr(0, p); }
static bool parse_vec(const std::string& s, Vec& out) {          // "(a,b,..)" with rational entries
  size_t a = s.find('('), b = s.rfind(')');
  if (a == std::string::npos || b == std::string::npos || b < a) return false;
  out.clear();
  std::string body = s.substr(a + 1, b - a - 1);
  size_t p = 0;
  while (p <= body.size() && !body.empty()) { size_t q = body.find(',', p); std::string t = body.substr(p, q == std::string::npos ? std::string::npos : q - p);
    Q v(t); v.canonicalize(); out.push_back(v); if (q == std::string::npos) break; p = q + 1; }
  return true;
}

// ------------------------------------------------------------------ known-finding triggers (narrow predicates over the input)
// generators as the code under test will see them (after its own lazy update), computed on a clone
static bool updated_gens_divisor_ne_1(const Grid& before, bool minimized) {
  if (before.space_dim == 0) return false;
  GP c(clone(before));
  try { return gens_divisor_ne_1(minimized ? c->minimized_grid_generators() : c->grid_generators()); } catch (...) { return false; }
}
// generators as relation_with(Congruence) will scan them: does a parameter come before the first point?
static bool param_precedes_first_point(const Grid& before) {
  if (before.space_dim == 0 || before.status.test_empty()) return false;
  GP c(clone(before));
  try {
    const PPL::Grid_Generator_System& gs = c->grid_generators();
    for (PPL::Grid_Generator_System::const_iterator i = gs.begin(), e = gs.end(); i != e; ++i) { if (i->is_point()) return false; if (i->is_parameter()) return true; }
  } catch (...) {}
  return false;
}
static bool name_is(const std::string& n, const char* pfx) { return n.compare(0, strlen(pfx), pfx) == 0; }
static bool expr_b_nonzero(const std::string& es) { for (size_t i = 0; i < EM.size(); ++i) if (EM[i].str() == es) return EM[i].b != 0; return false; }
static const LE* expr_named(const std::string& es) { for (size_t i = 0; i < EM.size(); ++i) if (EM[i].str() == es) return &EM[i]; return 0; }
static bool unmarked_empty(const Grid& before, int cls) { return cempty(cls) && !before.status.test_empty(); }
static std::string trigger_for_query(const Query& q, const Grid& before, int cls, const std::string& got, const std::string& want) {
  const std::string& n = q.name;
  if (name_is(n, "relation_with(grid ") || name_is(n, "relation_with(poly ")) return unmarked_empty(before, cls) ? "receiver_empty_but_not_marked" : "none";
  if (n == "is_discrete") {
    if (before.status.test_g_up_to_date() && !before.status.test_empty() && before.gen_sys.begin() != before.gen_sys.end() && before.gen_sys.begin()->is_line()) return "stored_generator_row_0_is_a_line";
    return "none";
  }
  if (name_is(n, "relation_with(") && (n.find(" mod ") != std::string::npos || n.find("==0)") != std::string::npos) && param_precedes_first_point(before))
    return "a_parameter_precedes_the_first_point_of_the_generator_system";
  if (name_is(n, "relation_with(") && n.find(" mod ") != std::string::npos)
    return updated_gens_divisor_ne_1(before, false) ? "proper_congruence_and_generator_divisor_ne_1" : "none";
  if (name_is(n, "relation_with(") && n.find(">0)") != std::string::npos && n.find(">=0)") == std::string::npos) {
    // strict inequality whose space dimension is smaller than the grid's
    int cdim = 0; for (size_t i = 14; i < n.size(); ++i) if (n[i] >= 'A' && n[i] <= 'C' && i > 0 && n[i - 1] == '*') cdim = std::max(cdim, n[i] - 'A' + 1);
    return (cdim < (int)before.space_dim && !cempty(cls)) ? "strict_inequality_of_lower_space_dimension_than_the_grid" : "none";
  }
  if (n == "is_universe") return unmarked_empty(before, cls) ? "receiver_empty_but_not_marked" : "none";
  if (name_is(n, "constrains(")) {
    // generators up to date, congruences not, and the generator system holds a line along exactly that variable
    if (before.status.test_g_up_to_date() && !before.status.test_c_up_to_date() && !before.status.test_empty()) {
      int v = n[11] - 'A';
      for (PPL::Grid_Generator_System::const_iterator i = before.gen_sys.begin(), e = before.gen_sys.end(); i != e; ++i) {
        if (!i->is_line()) continue;
        bool only = i->coefficient(Variable(v)) != 0;
        for (int k = 0; k < (int)before.space_dim && only; ++k) if (k != v && i->coefficient(Variable(k)) != 0) only = false;
        if (only) return "line_along_var_stored_and_congruences_out_of_date";
      }
    }
    return "none";
  }
  if (name_is(n, "maximize(") || name_is(n, "minimize(")) {
    size_t close = n.find_first_of(",)", 9);
    bool b_nonzero = expr_b_nonzero(n.substr(9, close - 9));
    if (b_nonzero && before.space_dim == 0) return "space_dim_0_and_inhomogeneous_term_ne_0";
    // inhomogeneous term != 0 and minimized generators with a common divisor != 1
    return (b_nonzero && updated_gens_divisor_ne_1(before, true)) ? "inhomogeneous_term_ne_0_and_generator_divisor_ne_1" : "none";
  }
  if (name_is(n, "frequency(")) {
    std::string es = n.substr(10, n.size() - 11);
    if (before.space_dim == 0 && expr_b_nonzero(es)) return "space_dim_0_and_inhomogeneous_term_ne_0";
    {
      // same frequency, value in the right coset, but not the one of minimal magnitude
      size_t a = got.find(",val="), b = want.find(",val=");
      if (a != std::string::npos && b != std::string::npos && got.substr(0, a) == want.substr(0, b) && got.compare(0, 10, "true,freq=") == 0) {
        Q f(got.substr(10, a - 10)), gv(got.substr(a + 5)), wv(want.substr(b + 5, want.find("||", b) == std::string::npos ? std::string::npos : want.find("||", b) - b - 5));
        if (f != 0 && rg::is_int((gv - wv) / f) && rg::qabs(gv) > rg::qabs(wv)) return "value_in_the_right_coset_but_not_closest_to_zero";
      }
    }
    if (got == "false,outputs-modified" && want == "false" && !cempty(cls)) {
      const LE* e = expr_named(es);
      if (e) { Vec a = levec(*e, CL[cls].n); for (size_t k = 0; k < CL[cls].L.size(); ++k) if (rg::dot(a, CL[cls].L[k]) != 0) return "non_empty_and_a_line_moves_the_expression"; }
    }
    return "none";
  }
  return "none";
}
// relation_with(non-equality constraint) rewrites further points of the stored generator system in place
static bool several_points_and_divisor_ne_1(const Grid& before) {
  if (!before.status.test_g_up_to_date()) return false;
  int npts = 0; for (PPL::Grid_Generator_System::const_iterator i = before.gen_sys.begin(), e = before.gen_sys.end(); i != e; ++i) if (i->is_point()) ++npts;
  return npts > 1 && gens_divisor_ne_1(before.gen_sys);
}
static bool is_inequality_relation(const std::string& n) { return name_is(n, "relation_with(") && (n.find(">=0)") != std::string::npos || n.find(">0)") != std::string::npos); }
static std::string trigger_for_op(const Op& op, const Grid& before, const Grid* operand, int cls) {
  const std::string& n = op.name;
  if (is_inequality_relation(n)) return several_points_and_divisor_ne_1(before) ? "inequality_and_several_points_stored_with_divisor_ne_1" : "none";
  if (n == "Grid(copy)") return (before.status.test_empty() && before.space_dim > 0) ? "source_marked_empty" : "none";
  if (n == "difference_assign") return updated_gens_divisor_ne_1(before, false) ? "receiver_generator_divisor_ne_1" : "none";
  if (n == "upper_bound_assign_if_exact") return (updated_gens_divisor_ne_1(before, false) || (operand && updated_gens_divisor_ne_1(*operand, false))) ? "some_generator_divisor_ne_1" : "none";
  if (n == "simplify_using_context_assign") return (operand && updated_gens_divisor_ne_1(*operand, true)) ? "context_generator_divisor_ne_1" : "none";
  if (n == "remove_higher_space_dimensions(1)" || n == "remove_higher_space_dimensions(2)") {
    int nd = n[31] - '0';
    return (before.status.test_g_up_to_date() && before.status.test_g_minimized() && nd < (int)before.space_dim && !cempty(cls)) ? "generators_minimized_and_0_lt_new_dim_lt_space_dim" : "none";
  }
  if (name_is(n, "add_grid_generators(") || name_is(n, "add_recycled_grid_generators(")) return unmarked_empty(before, cls) ? "receiver_empty_but_not_marked" : "none";
  if (name_is(n, "add_space_dimensions_and_project(")) return (before.space_dim == 0 && !before.status.test_empty() && n != "add_space_dimensions_and_project(0)") ? "receiver_zero_dim_universe" : "none";
  if (name_is(n, "generalized_affine_preimage(") && (n[28] == 'A' || n[28] == 'B' || n[28] == 'C') && n[29] == ',') {
    // variable form  (var, ==, expr, d, m): modulus != 0, expr mentions var with coefficient a, |a| != |d|
    std::vector<std::string> f; size_t p0 = 28;
    while (true) { size_t q = n.find(',', p0); if (q == std::string::npos) { f.push_back(n.substr(p0, n.size() - 1 - p0)); break; } f.push_back(n.substr(p0, q - p0)); p0 = q + 1; }
    if (f.size() == 5 && f[1] == "==") {
      const LE* e = expr_named(f[2]); long d = atol(f[3].c_str()), m = atol(f[4].c_str()); int v = f[0][0] - 'A';
      if (e && m != 0 && e->mentions(v) && std::labs(e->a[v]) != std::labs(d) && !cempty(cls)) return "modulus_ne_0_and_abs_var_coefficient_ne_abs_denominator";
    }
  }
  return "none";
}

// ------------------------------------------------------------------ representatives and operand pool
static std::vector<int> REPS;
static std::vector<std::vector<int> > GROUPS;
static std::vector<int> POOL;

static void choose_reps(bool all_states, int pool_classes, int pool_sigs) {
  std::map<std::pair<int, std::string>, int> first;
  for (size_t s = 0; s < ST.size(); ++s) {
    std::pair<int, std::string> k(ST[s].cls, ST[s].sig);
    if (!first.count(k)) { first[k] = (int)s; if (!all_states) REPS.push_back((int)s); }
    if (all_states) REPS.push_back((int)s);
  }
  std::map<int, std::vector<int> > cls_order;            // dim -> classes in discovery order
  std::map<int, std::vector<int> > members;              // class -> representatives (distinct signatures)
  for (auto& kv : first) members[kv.first.first].push_back(kv.second);
  std::set<int> seen;
  for (size_t s = 0; s < ST.size(); ++s) if (seen.insert(ST[s].cls).second) cls_order[ST[s].dim].push_back(ST[s].cls);
  for (auto& kv : cls_order) {
    // spread the chosen classes over the discovery order (early = simple, late = composite)
    std::vector<int>& v = kv.second;
    size_t want = std::min<size_t>(pool_classes, v.size());
    for (size_t i = 0; i < want; ++i) {
      int k = v[i < want / 2 ? i : v.size() - 1 - (i - want / 2) * std::max<size_t>(1, (v.size() - want / 2) / (want - want / 2 + 1))];
      std::vector<int>& m = members[k];
      std::sort(m.begin(), m.end());
      for (int j = 0; j < (int)m.size() && j < pool_sigs; ++j) POOL.push_back(j == 0 ? m[0] : m[m.size() - j]);
    }
  }
  // states needed to reproduce the defects announced by the design-time probes are always operands
  std::sort(POOL.begin(), POOL.end()); POOL.erase(std::unique(POOL.begin(), POOL.end()), POOL.end());
  std::map<int, int> gidx;
  for (size_t i = 0; i < REPS.size(); ++i) {
    int k = ST[REPS[i]].cls;
    if (!gidx.count(k)) { gidx[k] = (int)GROUPS.size(); GROUPS.push_back(std::vector<int>()); }
    GROUPS[gidx[k]].push_back(REPS[i]);
  }
}

// ------------------------------------------------------------------ phase B work
static std::unordered_map<std::string, std::string> QMEMO, RETMEMO;
static std::unordered_map<std::string, int> OPMEMO;

static std::string input_json(int s, const std::string& op, int operand) {
  J j; j.raw("history", hist_json(s)).str("op", op);
  if (operand >= 0) j.raw("operand_history", hist_json(operand));
  j.str("receiver_value", cstr(ST[s].cls)).str("signature", ST[s].sig);
  if (operand >= 0) j.str("operand_value", cstr(ST[operand].cls)).str("operand_signature", ST[operand].sig);
  return j.done();
}
static std::string site_of(const std::string& name) {
  if (name_is(name, "relation_with(grid ")) return "Grid::relation_with(Grid_Generator)";
  if (name_is(name, "relation_with(poly ")) return "Grid::relation_with(Generator)";
  if (name_is(name, "relation_with(")) return name.find(" mod ") != std::string::npos ? "Grid::relation_with(Congruence)" : "Grid::relation_with(Constraint)";
  if (name_is(name, "Grid(copy)")) return "Grid::Grid(const Grid&)";
  if (name_is(name, "operator=(")) return "Grid::operator=";
  return "Grid::" + name.substr(0, name.find('('));
}

// quick_equivalence_test compares two minimized congruence systems without equalities syntactically
static std::string eq_trigger(const Grid& a, const Grid& b) {
  if (a.space_dim != b.space_dim || a.space_dim == 0 || a.status.test_empty() || b.status.test_empty()) return "none";
  if (a.status.test_c_minimized() && b.status.test_c_minimized() && a.con_sys.num_equalities() == 0 && b.con_sys.num_equalities() == 0
      && a.con_sys.num_rows() == b.con_sys.num_rows() && !(a.con_sys == b.con_sys))
    return "both_congruence_systems_minimized_without_equalities_and_syntactically_different";
  if (a.status.test_g_minimized() && b.status.test_g_minimized() && a.gen_sys.num_lines() == 0 && b.gen_sys.num_lines() == 0
      && a.gen_sys.num_rows() == b.gen_sys.num_rows() && !(a.gen_sys == b.gen_sys))
    return "both_generator_systems_minimized_without_lines_and_syntactically_different";
  return "none";
}
static void run_queries_on(int s, long long& sub, long long sub_start) {
  const State& st = ST[s];
  for (size_t qi = 0; qi < QS.size(); ++qi) {
    const Query& q = QS[qi];
    std::vector<int> operands;
    if (q.binary) operands = POOL; else operands.push_back(-1);
    for (int o : operands) {
      Ctx cx; cx.dim = st.dim; cx.cls = st.cls; cx.ocls = o >= 0 ? ST[o].cls : -1; cx.odim = o >= 0 ? ST[o].dim : -1;
      if (!q.ok(cx)) continue;
      long long my = sub++;
      if (!pool().want(my, sub_start)) continue;
      pool().step(my);
      GP p(clone(*st.g));
      GP oc; if (o >= 0) oc.reset(clone(*ST[o].g));
      std::string got;
      try { got = q.run(*p, oc.get()); }
      catch (const std::exception& ex) { got = std::string("exception:") + ex.what(); }
      count(CNT_TRANS);
      std::string mk = std::to_string(st.cls) + "|" + std::to_string(cx.ocls) + "|" + std::to_string(qi);
      std::unordered_map<std::string, std::string>::iterator it = QMEMO.find(mk);
      std::string want;
      if (it != QMEMO.end()) want = it->second;
      else { RefGuard guard; want = q.expect(CL[st.cls], o >= 0 ? &CL[ST[o].cls] : 0); QMEMO[mk] = want; }
      count(CNT_CHECKS);
      bool okk = matches(strip_at(got), want);
      std::string expected = want;
      if (okk && got.find('@') != std::string::npos) {       // the witness point must belong to the grid
        Vec w; RefGuard guard;
        if (!parse_vec(got.substr(got.find('@')), w) || !CL[st.cls].contains_point(w)) { okk = false; expected = want + " with a witness point inside the grid"; }
      }
      if (!okk) {
        std::string site = site_of(q.name);
        std::string trig = trigger_for_query(q, *st.g, st.cls, got, want);
        if ((q.name == "operator==" || q.name == "operator!=") && o >= 0 && want == (q.name == "operator==" ? "true" : "false")) trig = eq_trigger(*st.g, *ST[o].g);
        std::string clause = (got == "false,outputs-modified" && want == "false") ? "query:outputs-modified-although-false-returned" : "query:answer!=model";
        if (violcap().admit(site + "|" + clause + "|" + trig))
          report_violation(site, clause, trig, input_json(s, q.name, o), got, expected);
      }
      // observing must not change the value, nor the value of the const operand
      if ((my & 3) == 0 || ARGS.thorough()) {
        RefGuard guard;
        check_stored(*p, st.cls, site_of(q.name), "value:changed-by-query", (is_inequality_relation(q.name) && several_points_and_divisor_ne_1(*st.g)) ? "inequality_and_several_points_stored_with_divisor_ne_1" : "none", input_json(s, q.name, o));
        if (!p->OK() && violcap().admit("qOK|" + q.name)) report_violation(site_of(q.name), "invariant:OK()-after-query", "none", input_json(s, q.name, o), "OK() false", "OK() true");
        if (oc) check_stored(*oc, ST[o].cls, site_of(q.name), "const-arg-changed", "none", input_json(s, q.name, o));
      }
    }
  }
}

static void run_ops_on(int s, long long& sub, long long sub_start) {
  const State& st = ST[s];
  for (size_t oi = 0; oi < OPS.size(); ++oi) {
    const Op& op = OPS[oi];
    std::vector<int> operands;
    if (op.binary) operands = POOL; else operands.push_back(-1);
    for (int o : operands) {
      Ctx cx; cx.dim = st.dim; cx.cls = st.cls; cx.ocls = o >= 0 ? ST[o].cls : -1; cx.odim = o >= 0 ? ST[o].dim : -1;
      if (!op.ok(cx)) continue;
      long long my = sub++;
      if (!pool().want(my, sub_start)) continue;
      pool().step(my);
      GP p(clone(*st.g));
      GP oc; if (o >= 0) oc.reset(clone(*ST[o].g));
      std::string ret; bool threw = false;
      try { ret = op.apply(*p, oc.get()); }
      catch (const std::exception& ex) { threw = true; ret = std::string("exception:") + ex.what(); }
      count(CNT_TRANS);
      std::string site = site_of(op.name);
      std::string inj = input_json(s, op.name, o);
      if (threw) { if (violcap().admit(site + "|exc")) report_violation(site, "unexpected-exception", "none", inj, ret, "no exception"); continue; }
      std::string trig = trigger_for_op(op, *st.g, o >= 0 ? ST[o].g : 0, st.cls);
      const RGrid* oval = o >= 0 ? &CL[ST[o].cls] : 0;
      if (op.relcheck) {
        int n = p->space_dimension();
        if (!p->OK()) { if (violcap().admit(site + "|OK")) report_violation(site, "invariant:OK()", trig, inj, "OK() false", "OK() true"); continue; }
        GP second(clone(*p));
        PPL::Congruence_System dc = p->congruences();
        PPL::Grid_Generator_System dg = second->grid_generators();
        RefGuard guard;
        RGrid v1 = value_of(dc, n), v2; bool wf = value_of(dg, n, v2);
        count(CNT_CHECKS, 3);
        if (!wf || v1 != v2) { if (violcap().admit(site + "|desc")) report_violation(site, "value:congruences!=generators", trig, inj, v1.str(), wf ? v2.str() : "malformed"); continue; }
        std::string clause = op.relcheck(CL[st.cls], oval, v1, ret);
        if (!clause.empty() && violcap().admit(site + "|" + clause + "|" + trig)) report_violation(site, clause, trig, inj, v1.str() + " ret=" + ret, "see clause");
      } else {
        std::string mk = std::to_string(st.cls) + "|" + std::to_string(cx.ocls) + "|" + std::to_string(oi);
        int want;
        std::unordered_map<std::string, int>::iterator it = OPMEMO.find(mk);
        if (it != OPMEMO.end()) want = it->second;
        else {
          RefGuard guard;
          want = CL.classify(op.refv(CL[st.cls], oval));
          OPMEMO[mk] = want;
          if (op.refret) RETMEMO[mk] = op.refret(CL[st.cls], oval);
        }
        if (op.refret) {
          const std::string& wr = RETMEMO[mk];
          count(CNT_CHECKS);
          if (wr != ret && violcap().admit(site + "|ret|" + trig)) report_violation(site, "return:boolean!=model", trig, inj, ret, wr);
        }
        check_value(*p, want, site, trig, inj);
      }
      // the const operand must keep its value
      if (oc) {
        RefGuard guard;
        check_stored(*oc, ST[o].cls, site, "const-arg-changed", "none", inj);
        PPL::Congruence_System occ = oc->congruences();
        RGrid v = value_of(occ, ST[o].dim);
        count(CNT_CHECKS);
        if (v != CL[ST[o].cls] && violcap().admit(site + "|operand")) report_violation(site, "const-arg-changed", "none", inj, v.str(), cstr(ST[o].cls));
      }
    }
  }
}

static void run_value_on(int s, long long& sub, long long sub_start) {
  long long my = sub++;
  if (!pool().want(my, sub_start)) return;
  pool().step(my);
  GP p(clone(*ST[s].g));
  count(CNT_TRANS, 10);
  check_value(*p, ST[s].cls, ST[s].op >= 0 ? site_of(OPS[ST[s].op].name) : "Grid::Grid(dim,kind)", "none", input_json(s, "(observe)", -1));
}

static int LAST_OPERAND = -1;
static std::string substep_name(int s, long long target) {
  const State& st = ST[s];
  LAST_OPERAND = -1;
  long long sub = 0;
  if (sub++ == target) return "(observe)";
  for (size_t qi = 0; qi < QS.size(); ++qi) {
    const Query& q = QS[qi];
    std::vector<int> operands; if (q.binary) operands = POOL; else operands.push_back(-1);
    for (int o : operands) {
      Ctx cx; cx.dim = st.dim; cx.cls = st.cls; cx.ocls = o >= 0 ? ST[o].cls : -1; cx.odim = o >= 0 ? ST[o].dim : -1;
      if (!q.ok(cx)) continue;
      if (sub++ == target) return q.name + (o >= 0 ? " operand=" + hist_json(o) : "");
    }
  }
  for (size_t oi = 0; oi < OPS.size(); ++oi) {
    const Op& op = OPS[oi];
    std::vector<int> operands; if (op.binary) operands = POOL; else operands.push_back(-1);
    for (int o : operands) {
      Ctx cx; cx.dim = st.dim; cx.cls = st.cls; cx.ocls = o >= 0 ? ST[o].cls : -1; cx.odim = o >= 0 ? ST[o].dim : -1;
      if (!op.ok(cx)) continue;
      if (sub++ == target) { LAST_OPERAND = o; return op.name + (o >= 0 ? " operand=" + hist_json(o) : ""); }
    }
  }
  return "?";
}
static long long substep_count(int s) { long long n = 0; while (substep_name(s, n) != "?") ++n; return n; }

// ------------------------------------------------------------------ constructor section (one extra work item)
struct Ctor { std::string name; std::function<Grid*()> build; std::function<RGrid()> expect; bool superset_only; };
static std::vector<Ctor> CTORS;

// smallest grid containing a polyhedral cell: its affine hull
static RGrid hull_of_cell_raw(const ref::Cell& c0);
static RGrid hull_of_cell(const ref::Cell& c0) {
  static std::map<std::string, RGrid> memo;
  std::string k = std::to_string(c0.n) + ref::cell_str(c0);
  std::map<std::string, RGrid>::iterator it = memo.find(k);
  if (it != memo.end()) return it->second;
  RGrid r = hull_of_cell_raw(c0); memo[k] = r; return r;
}
static RGrid hull_of_cell_raw(const ref::Cell& c0) {
  int n = c0.n;
  if (ref::is_empty(c0)) return RGrid::bottom(n);
  ref::Gens gens; bool ok = ref::gens_of_closed_cell(ref::closure(ref::normalized(c0)), gens);
  RG_ASSERT(ok);
  Mat pts, lines;
  for (size_t i = 0; i < gens.size(); ++i) { Vec v(n); for (int k = 0; k < n; ++k) v[k] = gens[i].v[k]; if (gens[i].t == 'p' || gens[i].t == 'c') pts.push_back(v); else lines.push_back(v); }
  RG_ASSERT(!pts.empty());
  for (size_t i = 1; i < pts.size(); ++i) lines.push_back(rg::vsub(pts[i], pts[0]));
  Mat one(1, pts[0]);
  return rg::from_generators(n, one, Mat(), lines);
}

static void build_ctors() {
  // --- from congruence systems (copy and recycle), sizes 0..2
  std::vector<CG> cm; for (size_t i = 0; i < CGM.size(); i += 2) if (CGM[i].e.dim() <= 2) cm.push_back(CGM[i]);
  for (int a = -1; a < (int)cm.size(); ++a) for (int b = a; b < (int)cm.size(); ++b) for (int rec = 0; rec < 2; ++rec) {
    if (b == a && a >= 0) continue;
    if (a >= 0 && ((a * 5 + b) % 4) != 0) continue;
    std::vector<CG> sel; if (a >= 0) sel.push_back(cm[a]); if (b >= 0 && b != a) sel.push_back(cm[b]);
    int n = 0; for (size_t i = 0; i < sel.size(); ++i) n = std::max(n, sel[i].e.dim());
    std::string nm = std::string(rec ? "Grid(Congruence_System&,Recycle_Input){" : "Grid(const Congruence_System&){");
    for (size_t i = 0; i < sel.size(); ++i) nm += (i ? "," : "") + sel[i].str();
    Ctor c; c.name = nm + "}"; c.superset_only = false;
    c.build = [sel, rec]() { PPL::Congruence_System cs; for (size_t i = 0; i < sel.size(); ++i) cs.insert(sel[i].ppl()); return rec ? new Grid(cs, PPL::Recycle_Input()) : new Grid(cs); };
    c.expect = [sel, n]() { RGrid g = RGrid::universe(n); for (size_t i = 0; i < sel.size(); ++i) g = rg::add_congruence(g, sel[i].ref(n)); return g; };
    CTORS.push_back(c);
  }
  // --- from constraint systems (equalities and trivial rows)
  {
    using ref::EQ; using ref::GE;
    std::vector<CN> em = { CN(LE({1, 0}, -1), EQ), CN(LE({1, 1}, 0), EQ), CN(LE({2, -1}, -1), EQ), CN(LE({0, 3}, -1), EQ), CN(LE({0, 0}, 0), EQ), CN(LE({0, 0}, 1), EQ), CN(LE({2, 0}, -1), EQ) };
    for (int a = -1; a < (int)em.size(); ++a) for (int b = a; b < (int)em.size(); ++b) for (int rec = 0; rec < 2; ++rec) {
      if (b == a && a >= 0) continue;
      std::vector<CN> sel; if (a >= 0) sel.push_back(em[a]); if (b >= 0 && b != a) sel.push_back(em[b]);
      int n = 0; for (size_t i = 0; i < sel.size(); ++i) n = std::max(n, sel[i].e.dim());
      std::string nm = std::string(rec ? "Grid(Constraint_System&,Recycle_Input){" : "Grid(const Constraint_System&){");
      for (size_t i = 0; i < sel.size(); ++i) nm += (i ? "," : "") + sel[i].str();
      Ctor c; c.name = nm + "}"; c.superset_only = false;
      c.build = [sel, rec]() { PPL::Constraint_System cs; for (size_t i = 0; i < sel.size(); ++i) cs.insert(sel[i].ppl()); return rec ? new Grid(cs, PPL::Recycle_Input()) : new Grid(cs); };
      c.expect = [sel, n]() { RGrid g = RGrid::universe(n); for (size_t i = 0; i < sel.size(); ++i) g = rg::add_congruence(g, Cong(levec(sel[i].e, n), Q(sel[i].e.b), Q(0))); return g; };
      CTORS.push_back(c);
    }
  }
  // --- from grid generator systems: a point plus up to two more generators
  for (int dim = 0; dim <= 2; ++dim) for (size_t p0 = 0; p0 < GGM.size(); ++p0) {
    if (GGM[p0].t != 'p' || !GGM[p0].fits(dim)) continue;
    if (dim == 0 && p0 > 0) continue;
    for (int a = -1; a < (int)GGM.size(); ++a) for (int b = a; b < (int)GGM.size(); ++b) for (int rec = 0; rec < 2; ++rec) {
      if (b == a && a >= 0) continue;
      if (a >= 0 && ((a + 3 * b + p0 + rec) % 3) != 0) continue;
      std::vector<GG> sel; if (a >= 0) sel.push_back(GGM[a]); if (b >= 0 && b != a) sel.push_back(GGM[b]);
      bool okk = true; for (size_t i = 0; i < sel.size(); ++i) if (!sel[i].fits(dim) || (sel[i].t == 'l' && sel[i].zero(dim)) || (sel[i].t != 'p' && dim == 0)) okk = false;
      if (!okk) continue;
      sel.insert(sel.begin() + (sel.size() > 1 ? 1 : 0), GGM[p0]);        // the point is not always the first row
      std::string nm = std::string(rec ? "Grid(Grid_Generator_System&,Recycle_Input){" : "Grid(const Grid_Generator_System&){");
      for (size_t i = 0; i < sel.size(); ++i) nm += (i ? "," : "") + sel[i].str();
      Ctor c; c.name = nm + "} dim " + std::to_string(dim); c.superset_only = false;
      c.build = [sel, rec, dim]() { PPL::Grid_Generator_System gs; for (size_t i = 0; i < sel.size(); ++i) gs.insert(sel[i].ppl(dim)); return rec ? new Grid(gs, PPL::Recycle_Input()) : new Grid(gs); };
      c.expect = [sel, dim]() { Mat pts, params, lines; for (size_t i = 0; i < sel.size(); ++i) (sel[i].t == 'p' ? pts : sel[i].t == 'q' ? params : lines).push_back(sel[i].vec(dim)); return rg::from_generators(dim, pts, params, lines); };
      CTORS.push_back(c);
    }
  }
  { Ctor c; c.name = "Grid(const Grid_Generator_System&){} (no rows)"; c.superset_only = false;
    c.build = []() { PPL::Grid_Generator_System gs; return new Grid(gs); }; c.expect = []() { return RGrid::bottom(0); }; CTORS.push_back(c); }
  // --- from boxes: per-dimension interval menu
  {
    struct IV { const char* n; int kind; };     // 0 universe, 1 [1,1], 2 [1/2,1/2], 3 [0,2], 4 [0,+inf), 5 (0,1), 6 empty, 7 (-inf, 3]
    IV ivs[] = {{"R", 0}, {"[1,1]", 1}, {"[1/2,1/2]", 2}, {"[0,2]", 3}, {"[0,+inf)", 4}, {"(0,1)", 5}, {"empty", 6}, {"(-inf,3]", 7}};
    auto apply_iv = [](PPL::Rational_Box& b, int k, int kind) {
      Variable v(k);
      switch (kind) { case 1: b.add_constraint(v == 1); break; case 2: b.add_constraint(2 * v == 1); break; case 3: b.add_constraint(v >= 0); b.add_constraint(v <= 2); break;
        case 4: b.add_constraint(v >= 0); break; case 5: b.add_constraint(v > 0); b.add_constraint(v < 1); break; case 6: b.add_constraint(v >= 1); b.add_constraint(v <= 0); break;
        case 7: b.add_constraint(v <= 3); break; default: break; } };
    auto exp_iv = [](RGrid g, int k, int kind) -> RGrid {
      if (kind == 6) return RGrid::bottom(g.n);
      if (kind == 1) return rg::add_congruence(g, Cong(rg::unit_vec(g.n, k), Q(-1), Q(0)));
      if (kind == 2) return rg::add_congruence(g, Cong(rg::unit_vec(g.n, k), rg::mkq(-1, 2), Q(0)));
      return g; };
    for (int dim = 0; dim <= 2; ++dim) for (int a = 0; a < 8; ++a) for (int b = 0; b < 8; ++b) {
      if (dim < 2 && b > 0) continue; if (dim < 1 && a > 0) continue;
      Ctor c; c.name = "Grid(Rational_Box " + (dim >= 1 ? std::string(ivs[a].n) : std::string()) + (dim >= 2 ? std::string(" x ") + ivs[b].n : std::string()) + ") dim " + std::to_string(dim); c.superset_only = false;
      int ka = ivs[a].kind, kb = ivs[b].kind;
      c.build = [dim, ka, kb, apply_iv]() { PPL::Rational_Box bx(dim); if (dim >= 1) apply_iv(bx, 0, ka); if (dim >= 2) apply_iv(bx, 1, kb); return new Grid(bx); };
      c.expect = [dim, ka, kb, exp_iv]() { RGrid g = RGrid::universe(dim); if (dim >= 1) g = exp_iv(g, 0, ka); if (dim >= 2 && !g.empty) g = exp_iv(g, 1, kb); return g; };
      CTORS.push_back(c);
    }
    { Ctor c; c.name = "Grid(Rational_Box(2,EMPTY))"; c.superset_only = false; c.build = []() { PPL::Rational_Box bx(2, PPL::EMPTY); return new Grid(bx); }; c.expect = []() { return RGrid::bottom(2); }; CTORS.push_back(c); }
  }
  // --- from polyhedra / BD shapes / octagonal shapes: smallest grid containing the set = its affine hull
  {
    using ref::EQ; using ref::GE; using ref::GT;
    std::vector<CN> pm = { CN(LE({1, 0}, 0), GE), CN(LE({-1, 0}, 2), GE), CN(LE({1, 0}, -1), EQ), CN(LE({1, -1}, 0), EQ), CN(LE({1, 1}, -1), EQ), CN(LE({-1, 0}, 0), GE), CN(LE({0, 1}, -1), GE), CN(LE({0, -1}, 1), GE),
                           CN(LE({2, 0}, -1), EQ), CN(LE({1, -1}, -1), GE), CN(LE({-1, 1}, 1), GE), CN(LE({0, 0}, -1), GE), CN(LE({1, 0}, 0), GT), CN(LE({2, -1}, 1), EQ) };
    for (int dim = 0; dim <= 2; ++dim) for (int a = -1; a < (int)pm.size(); ++a) for (int b = a; b < (int)pm.size(); ++b) for (int c3 = b; c3 < (int)pm.size(); ++c3) {
      if ((b == a && a >= 0) || (c3 == b && b >= 0)) continue;
      if (a >= 0 && ((a + b * 3 + c3 * 7) % 5) != 0) continue;
      std::vector<CN> sel; if (a >= 0) sel.push_back(pm[a]); if (b >= 0 && b != a) sel.push_back(pm[b]); if (c3 >= 0 && c3 != b) sel.push_back(pm[c3]);
      bool okk = true; for (size_t i = 0; i < sel.size(); ++i) if (!fits(sel[i].e, dim)) okk = false;
      if (!okk) continue;
      bool strict = false, octagonal = true, bd = true;
      for (size_t i = 0; i < sel.size(); ++i) {
        if (sel[i].k == GT) strict = true;
        long x = sel[i].e.a.size() > 0 ? sel[i].e.a[0] : 0, y = sel[i].e.a.size() > 1 ? sel[i].e.a[1] : 0;
        if ((x && y && std::labs(x) != std::labs(y)) ) octagonal = false;
        if (x && y && x != -y) bd = false;
        if ((x && y && std::labs(x) != 1)) { octagonal = false; bd = false; }
      }
      if (!octagonal) bd = false;
      std::string lst; for (size_t i = 0; i < sel.size(); ++i) lst += (i ? "," : "") + sel[i].str();
      auto cell = [sel, dim]() { ref::Cell c(dim); for (size_t i = 0; i < sel.size(); ++i) c.rows.push_back(sel[i].row(dim)); return c; };
      // kind 0: C polyhedron as built; 1: after minimized_constraints; 2: after generators(); 3: NNC; 4: polynomial complexity; 5: BD_Shape; 6: Octagonal_Shape
      for (int kind = 0; kind < 7; ++kind) {
        if (strict && kind != 3) continue;
        if (kind == 5 && !bd) continue;
        if (kind == 6 && !octagonal) continue;
        static const char* kn[] = {"C_Polyhedron", "C_Polyhedron+minimized_constraints", "C_Polyhedron+generators", "NNC_Polyhedron", "C_Polyhedron,POLYNOMIAL_COMPLEXITY", "BD_Shape<mpq_class>", "Octagonal_Shape<mpq_class>"};
        Ctor c; c.name = std::string("Grid(") + kn[kind] + "{" + lst + "}) dim " + std::to_string(dim); c.superset_only = (kind == 4);
        c.build = [sel, dim, kind]() -> Grid* {
          PPL::Constraint_System cs; for (size_t i = 0; i < sel.size(); ++i) cs.insert(sel[i].ppl());
          if (kind == 5) { PPL::BD_Shape<mpq_class> s(dim); s.add_constraints(cs); return new Grid(s); }
          if (kind == 6) { PPL::Octagonal_Shape<mpq_class> s(dim); s.add_constraints(cs); return new Grid(s); }
          if (kind == 3) { PPL::NNC_Polyhedron ph(dim); ph.add_constraints(cs); return new Grid(ph); }
          PPL::C_Polyhedron ph(dim); ph.add_constraints(cs);
          if (kind == 1) (void)ph.minimized_constraints();
          if (kind == 2) (void)ph.generators();
          return kind == 4 ? new Grid(ph, PPL::POLYNOMIAL_COMPLEXITY) : new Grid(ph); };
        c.expect = [cell]() { return hull_of_cell(cell()); };
        CTORS.push_back(c);
      }
    }
    // polyhedra given by generators
    std::vector<GN> gm = { GN('p', {0, 0}), GN('p', {1, 1}, 2), GN('p', {2, 0}), GN('p', {1, 4}, 3), GN('r', {1, 0}), GN('r', {1, 1}), GN('l', {1, -1}), GN('c', {3, 0}, 2) };
    for (int dim = 1; dim <= 2; ++dim) for (size_t p0 = 0; p0 < 4; ++p0) for (int a = -1; a < (int)gm.size(); ++a) for (int b = a; b < (int)gm.size(); ++b) {
      if (b == a && a >= 0) continue;
      std::vector<GN> sel; sel.push_back(gm[p0]); if (a >= 0) sel.push_back(gm[a]); if (b >= 0 && b != a) sel.push_back(gm[b]);
      bool okk = true, nnc = false;
      for (size_t i = 0; i < sel.size(); ++i) { for (size_t k = dim; k < sel[i].v.size(); ++k) if (sel[i].v[k]) okk = false; if (sel[i].t == 'c') nnc = true;
        if (sel[i].t == 'r' || sel[i].t == 'l') { bool z = true; for (int k = 0; k < dim; ++k) if (sel[i].v[k]) z = false; if (z) okk = false; } }
      if (!okk) continue;
      std::string lst; for (size_t i = 0; i < sel.size(); ++i) lst += (i ? "," : "") + sel[i].str();
      for (int mini = 0; mini < 2; ++mini) {
        Ctor c; c.name = std::string("Grid(") + (nnc ? "NNC" : "C") + "_Polyhedron from generators {" + lst + "}" + (mini ? "+minimized_generators" : "") + ") dim " + std::to_string(dim); c.superset_only = false;
        c.build = [sel, dim, nnc, mini]() -> Grid* {
          PPL::Generator_System gs; for (size_t i = 0; i < sel.size(); ++i) { GN t = sel[i]; t.v.resize(dim); gs.insert(t.ppl()); }
          if (nnc) { PPL::NNC_Polyhedron ph(gs); if (mini) (void)ph.minimized_generators(); return new Grid(ph); }
          PPL::C_Polyhedron ph(gs); if (mini) (void)ph.minimized_generators(); return new Grid(ph); };
        c.expect = [sel, dim]() {
          Mat lines; Vec base;
          for (size_t i = 0; i < sel.size(); ++i) { Vec v(dim, Q(0)); bool pt = sel[i].t == 'p' || sel[i].t == 'c'; for (int k = 0; k < dim; ++k) v[k] = pt ? rg::mkq(sel[i].v[k], sel[i].d) : Q(sel[i].v[k]);
            if (pt) { if (base.empty()) base = v; else lines.push_back(rg::vsub(v, base)); } else lines.push_back(v); }
          Mat one(1, base); return rg::from_generators(dim, one, Mat(), lines); };
        CTORS.push_back(c);
      }
    }
  }
}

static const int CTOR_CHUNKS = 32;
static void run_ctors(int chunk, long long& sub, long long sub_start) {
  size_t lo = CTORS.size() * chunk / CTOR_CHUNKS, hi = CTORS.size() * (chunk + 1) / CTOR_CHUNKS;
  for (size_t i = lo; i < hi; ++i) {
    long long my = sub++;
    if (!pool().want(my, sub_start)) continue;
    pool().step(my);
    const Ctor& c = CTORS[i];
    std::string name = c.name;
    std::string site = "Grid::" + name.substr(0, name.find_first_of("{ ") == std::string::npos ? name.size() : name.find_first_of("{ "));
    if (site.find('(') != std::string::npos && site.find(')') == std::string::npos) site += ")";
    std::string inj = J().str("constructor", name).done();
    GP g;
    try { g.reset(c.build()); }
    catch (const std::exception& ex) { count(CNT_TRANS); if (violcap().admit(site + "|exc")) report_violation(site, "unexpected-exception", "none", inj, ex.what(), "no exception"); continue; }
    count(CNT_TRANS); count(CNT_STATES);
    int want;
    { RefGuard guard; want = CL.classify(c.expect()); }
    if (c.superset_only) {
      GP second(clone(*g));
      if (!g->OK()) { if (violcap().admit(site + "|OK")) report_violation(site, "invariant:OK()", "none", inj, "OK() false", "OK() true"); continue; }
      PPL::Congruence_System cs = g->congruences();
      RefGuard guard;
      RGrid v = value_of(cs, g->space_dimension());
      count(CNT_CHECKS);
      if (!rg::subset(CL[want], v) && violcap().admit(site + "|sup")) report_violation(site, "sound:result-does-not-contain-the-set", "none", inj, v.str(), "superset of " + cstr(want));
      continue;
    }
    check_value(*g, want, site, "none", inj);
  }
}

// ------------------------------------------------------------------ high-dimension family (dimension 4..6)
// The explorer above stops at dimension 3; the triangular reductions (Grid::simplify, conversion, reduce_reduced) walk
// dim_kinds patterns such as "parameter, virtual, virtual, parameter, line" that need >= 5 dimensions.  This family is
// exhaustive over: every system of a point plus <= 4 generators drawn from a menu (unit vectors e_i, k*e_i,
// e_i + 7*e_j, each as parameter and as line), and dually every system of <= 4 congruences over the rows
// (e_i, e_j - 7*e_i, e_0 + e_1) as equality / mod 1 / mod 3; each built by the constructor and incrementally with a
// minimisation in between, then judged by the same value oracle and by a query list over 5-dimensional arguments.
struct HDCase { int dim; bool from_cons; bool incremental; std::vector<GG> gens; std::vector<CG> cons; std::string name; };
static std::vector<HDCase> HD;
static std::vector<std::vector<Query> > HDQ(8);     // per dimension
static const int HD_CHUNKS = 64;

static std::vector<long> hvec(int dim, std::initializer_list<std::pair<int, long> > es) { std::vector<long> v(dim, 0); for (auto& e : es) if (e.first < dim) v[e.first] = e.second; return v; }
static GG hgg(char t, const std::vector<long>& v, long d = 1) { GG g; g.t = t; g.v = v; g.d = d; return g; }
static CG hcg(const std::vector<long>& a, long b, long m) { LE e; e.a = a; e.b = b; return CG(e, m); }

static void build_hd() {
  bool TH = ARGS.thorough();
  std::vector<int> dims = TH ? std::vector<int>{4, 5, 6} : std::vector<int>{5};
  if (ARGS.has("--no-hd")) return;
  for (int dim : dims) {
    int L = dim - 1;
    std::vector<std::vector<long> > vecs;
    for (int i = 0; i < dim; ++i) vecs.push_back(hvec(dim, {{i, 1}}));
    vecs.push_back(hvec(dim, {{L, 3}})); vecs.push_back(hvec(dim, {{2, 2}}));
    vecs.push_back(hvec(dim, {{0, 1}, {L, 7}})); vecs.push_back(hvec(dim, {{1, 1}, {L - 1, 7}})); vecs.push_back(hvec(dim, {{0, 1}, {1, 1}}));
    std::vector<GG> menu;
    for (size_t i = 0; i < vecs.size(); ++i) { menu.push_back(hgg('q', vecs[i])); menu.push_back(hgg('l', vecs[i])); }
    std::vector<GG> points = { hgg('p', hvec(dim, {})), hgg('p', hvec(dim, {{0, 1}, {L, 1}}), 2) };
    if (TH) points.push_back(hgg('p', hvec(dim, {{1, -1}, {2, 2}}), 3));
    int maxg = (dim == 5 || !TH) ? 4 : 3;
    // all subsets of size <= maxg of the menu (never the same vector as parameter and as line)
    std::vector<int> idx;
    std::function<void(int)> rec = [&](int from) {
      for (size_t pi = 0; pi < points.size(); ++pi) for (int inc = 0; inc < 2; ++inc) {
        if (inc && !TH && ((idx.size() + (idx.empty() ? 0 : idx[0]) + pi) % 3) != 0) continue;      // incremental variant: every case in thorough, a third in quick
        HDCase c; c.dim = dim; c.from_cons = false; c.incremental = inc;
        // the point is not always the first row
        for (size_t k = 0; k < idx.size(); ++k) { if (k == (idx.size() > 1 ? 1u : 0u)) c.gens.push_back(points[pi]); c.gens.push_back(menu[idx[k]]); }
        if (idx.empty() || c.gens.size() == idx.size()) c.gens.insert(c.gens.begin(), points[pi]);
        if (inc) { // incremental insertion needs the point first
          for (size_t k = 0; k < c.gens.size(); ++k) if (c.gens[k].t == 'p') { std::swap(c.gens[0], c.gens[k]); break; } }
        c.name = std::string(inc ? "dim" : "Grid(gens) dim") + std::to_string(dim) + (inc ? " incremental" : "") + " {";
        for (size_t k = 0; k < c.gens.size(); ++k) c.name += (k ? "," : "") + c.gens[k].str();
        c.name += "}";
        HD.push_back(c);
      }
      if ((int)idx.size() == maxg) return;
      for (int i = from; i < (int)menu.size(); ++i) {
        bool clash = false; for (int j : idx) if (j / 2 == i / 2) clash = true;
        if (clash) continue;
        idx.push_back(i); rec(i + 1); idx.pop_back();
      }
    };
    rec(0);
    // congruence systems
    std::vector<std::vector<long> > rows;
    for (int i = 0; i < dim; ++i) rows.push_back(hvec(dim, {{i, 1}}));
    rows.push_back(hvec(dim, {{L, 1}, {0, -7}})); rows.push_back(hvec(dim, {{L - 1, 1}, {1, -7}})); rows.push_back(hvec(dim, {{0, 1}, {1, 1}}));
    std::vector<CG> cmenu;
    for (size_t i = 0; i < rows.size(); ++i) { cmenu.push_back(hcg(rows[i], 0, 0)); cmenu.push_back(hcg(rows[i], 0, 1)); cmenu.push_back(hcg(rows[i], 0, 3)); }
    cmenu.push_back(hcg(hvec(dim, {{0, 2}}), -1, 2)); cmenu.push_back(hcg(hvec(dim, {{L, 1}}), -1, 0));
    int maxc = (dim == 5 || !TH) ? 4 : 3;
    std::vector<int> cidx;
    std::function<void(int)> crec = [&](int from) {
      for (int inc = 0; inc < 2; ++inc) {
        if (inc && !TH && ((cidx.size() + (cidx.empty() ? 0 : cidx[0])) % 3) != 0) continue;
        if (inc && cidx.empty()) continue;
        HDCase c; c.dim = dim; c.from_cons = true; c.incremental = inc;
        for (int j : cidx) c.cons.push_back(cmenu[j]);
        c.name = std::string(inc ? "dim" : "Grid(cons) dim") + std::to_string(dim) + (inc ? " incremental" : "") + " {";
        for (size_t k = 0; k < c.cons.size(); ++k) c.name += (k ? "," : "") + c.cons[k].str();
        c.name += "}";
        HD.push_back(c);
      }
      if ((int)cidx.size() == maxc) return;
      for (int i = from; i < (int)cmenu.size(); ++i) {
        bool clash = false; for (int j : cidx) if (j / 3 == i / 3 && i < (int)rows.size() * 3) clash = true;      // one variant per row
        if (clash) continue;
        cidx.push_back(i); crec(i + 1); cidx.pop_back();
      }
    };
    crec(0);
    // queries over dim-dimensional arguments
    std::vector<Query>& QL = HDQ[dim];
    auto simple = [&QL](const char* n, std::function<std::string(Grid&)> f, std::function<std::string(const RGrid&)> r) {
      Query q; q.name = n; q.binary = false; q.ok = [](const Ctx&) { return true; };
      q.run = [f](Grid& p, const Grid*) { return f(p); };
      q.expect = [r](const RGrid& v, const RGrid*) { return r(v); };
      QL.push_back(q); };
    auto tf = [](bool b) { return std::string(b ? "true" : "false"); };
    simple("is_universe", [tf](Grid& p) { return tf(p.is_universe()); }, [tf](const RGrid& v) { return tf(rg::is_universe(v)); });
    simple("is_discrete", [tf](Grid& p) { return tf(p.is_discrete()); }, [tf](const RGrid& v) { return tf(rg::is_discrete(v)); });
    simple("is_bounded", [tf](Grid& p) { return tf(p.is_bounded()); }, [tf](const RGrid& v) { return tf(rg::is_bounded(v)); });
    simple("contains_integer_point", [tf](Grid& p) { return tf(p.contains_integer_point()); }, [tf](const RGrid& v) { return tf(rg::contains_integer_point(v)); });
    simple("affine_dimension", [](Grid& p) { return std::to_string(p.affine_dimension()); }, [](const RGrid& v) { return std::to_string(rg::affine_dimension(v)); });
    for (int v = 0; v < dim; ++v) {
      Query q; q.name = std::string("constrains(") + char('A' + v) + ")"; q.binary = false; q.ok = [](const Ctx&) { return true; };
      q.run = [v, tf](Grid& p, const Grid*) { return tf(p.constrains(Variable(v))); };
      q.expect = [v, tf](const RGrid& c, const RGrid*) { return tf(rg::constrains(c, v)); };
      QL.push_back(q);
    }
    std::vector<GG> rgm = { hgg('p', hvec(dim, {{0, 1}, {L, 7}}), 4), hgg('p', hvec(dim, {{0, 1}, {L, 1}}), 4), hgg('p', hvec(dim, {})), hgg('p', hvec(dim, {{1, 1}, {L, 3}})),
                            hgg('l', hvec(dim, {{0, 1}, {L, 7}})), hgg('l', hvec(dim, {{0, 1}, {L, 1}})), hgg('l', hvec(dim, {{2, 1}})), hgg('q', hvec(dim, {{1, 1}})), hgg('q', hvec(dim, {{L, 1}})), hgg('q', hvec(dim, {{L, 3}}), 2) };
    for (size_t i = 0; i < rgm.size(); ++i) {
      GG g = rgm[i];
      Query q; q.name = "relation_with(grid " + g.str() + ")"; q.binary = false; q.ok = [](const Ctx&) { return true; };
      q.run = [g](Grid& p, const Grid*) { return std::string(p.relation_with(g.ppl(p.space_dimension())).implies(PPL::Poly_Gen_Relation::subsumes()) ? "subsumes" : "nothing"); };
      q.expect = [g](const RGrid& v, const RGrid*) { return std::string(rg::subsumes(v, g.t, g.vec(v.n)) ? "subsumes" : "nothing"); };
      QL.push_back(q);
    }
    std::vector<CG> rcm = { hcg(hvec(dim, {{L, 1}, {0, -7}}), 0, 3), hcg(hvec(dim, {{L, 1}, {0, -1}}), 0, 3), hcg(hvec(dim, {{1, 1}}), 0, 1), hcg(hvec(dim, {{2, 1}}), 0, 0), hcg(hvec(dim, {{L - 1, 1}}), 0, 0),
                            hcg(hvec(dim, {{L, 1}}), 0, 3), hcg(hvec(dim, {{0, 2}, {1, 1}}), -1, 2), hcg(hvec(dim, {{L - 1, 1}, {1, -7}}), 0, 1) };
    for (size_t i = 0; i < rcm.size(); ++i) {
      CG c = rcm[i];
      Query q; q.name = "relation_with(" + c.str() + ")"; q.binary = false; q.ok = [](const Ctx&) { return true; };
      q.run = [c](Grid& p, const Grid*) { return rel_con_str(p.relation_with(c.ppl())); };
      q.expect = [c](const RGrid& v, const RGrid*) { return ref_rel_cong(v, c.ref(v.n)); };
      QL.push_back(q);
    }
    { LE e; e.a = hvec(dim, {{L, 1}, {0, -7}}); e.b = 0;
      Query q; q.name = "frequency(" + e.str() + ")"; q.binary = false; q.ok = [](const Ctx&) { return true; };
      q.run = [e](Grid& p, const Grid*) {
        Coefficient fn, fd, vn, vd;
        if (!p.frequency(e.ppl(), fn, fd, vn, vd)) return std::string("false");
        if (fd == 0 || vd == 0) return std::string("true,zero-denominator");
        Q f(to_q(fn).get_num(), to_q(fd).get_num()); f.canonicalize(); Q v(to_q(vn).get_num(), to_q(vd).get_num()); v.canonicalize();
        return "true,freq=" + qs(f) + ",val=" + qs(v); };
      q.expect = [e](const RGrid& v, const RGrid*) {
        rg::Freq fr = rg::frequency(v, levec(e, v.n), Q(e.b));
        if (!fr.defined) return std::string("false");
        Q c = rg::closest_to_zero(fr.v0, fr.f);
        std::string s = "true,freq=" + qs(fr.f) + ",val=" + qs(c);
        if (fr.f != 0 && c * 2 == fr.f) s += "||true,freq=" + qs(fr.f) + ",val=" + qs(Q(-c));
        return s; };
      QL.push_back(q); }
  }
}

static RGrid hd_expect(const HDCase& c) {
  if (c.from_cons) { RGrid g = RGrid::universe(c.dim); for (size_t i = 0; i < c.cons.size(); ++i) g = rg::add_congruence(g, c.cons[i].ref(c.dim)); return g; }
  Mat pts, params, lines;
  for (size_t i = 0; i < c.gens.size(); ++i) (c.gens[i].t == 'p' ? pts : c.gens[i].t == 'q' ? params : lines).push_back(c.gens[i].vec(c.dim));
  return rg::from_generators(c.dim, pts, params, lines);
}
static Grid* hd_build(const HDCase& c) {
  if (c.from_cons) {
    if (!c.incremental) { PPL::Congruence_System cs; for (size_t i = 0; i < c.cons.size(); ++i) cs.insert(c.cons[i].ppl()); cs.insert((0 * Variable(c.dim - 1) %= 0) / 1); return new Grid(cs); }
    Grid* g = new Grid(c.dim);
    for (size_t i = 0; i < c.cons.size(); ++i) { g->add_congruence(c.cons[i].ppl()); if (i == 1) (void)g->minimized_grid_generators(); if (i == 2) (void)g->minimized_congruences(); }
    return g;
  }
  if (!c.incremental) { PPL::Grid_Generator_System gs; for (size_t i = 0; i < c.gens.size(); ++i) gs.insert(c.gens[i].ppl(c.dim)); return new Grid(gs); }
  Grid* g = new Grid(c.dim, PPL::EMPTY);
  for (size_t i = 0; i < c.gens.size(); ++i) { g->add_grid_generator(c.gens[i].ppl(c.dim)); if (i == 1) (void)g->minimized_congruences(); if (i == 2) (void)g->minimized_grid_generators(); }
  return g;
}
static std::string hd_site(const HDCase& c) {
  if (c.incremental) return c.from_cons ? "Grid::add_congruence" : "Grid::add_grid_generator";
  return c.from_cons ? "Grid::Grid(const Congruence_System&)" : "Grid::Grid(const Grid_Generator_System&)";
}
static void run_hd(int chunk, long long& sub, long long sub_start) {
  size_t lo = HD.size() * chunk / HD_CHUNKS, hi = HD.size() * (chunk + 1) / HD_CHUNKS;
  for (size_t i = lo; i < hi; ++i) {
    long long my = sub++;
    if (!pool().want(my, sub_start)) continue;
    pool().step(my);
    const HDCase& c = HD[i];
    std::string site = hd_site(c);
    std::string inj = J().str("hd_case", c.name).done();
    GP g;
    try { g.reset(hd_build(c)); }
    catch (const std::exception& ex) { count(CNT_TRANS); if (violcap().admit(site + "|exc")) report_violation(site, "unexpected-exception", "none", inj, ex.what(), "no exception"); continue; }
    count(CNT_TRANS, 1 + (c.from_cons ? c.cons.size() : c.gens.size())); count(CNT_STATES);
    int want;
    { RefGuard guard; want = CL.classify(hd_expect(c)); }
    // queries first, each on a clone of the freshly built object and on a clone of the observed one
    GP observed(clone(*g));
    (void)observed->minimized_grid_generators(); (void)observed->minimized_congruences();
    const std::vector<Query>& QL = HDQ[c.dim];
    for (size_t qi = 0; qi < QL.size(); ++qi) for (int obs = 0; obs < 2; ++obs) {
      GP p(clone(obs ? *observed : *g));
      std::string got;
      try { got = QL[qi].run(*p, 0); } catch (const std::exception& ex) { got = std::string("exception:") + ex.what(); }
      count(CNT_TRANS); count(CNT_CHECKS);
      std::string want_s; { RefGuard guard; want_s = QL[qi].expect(CL[want], 0); }
      if (!matches(got, want_s)) {
        std::string qsite = site_of(QL[qi].name);
        std::string trig = trigger_for_query(QL[qi], obs ? *observed : *g, want, got, want_s);
        if (violcap().admit("hd|" + qsite + "|" + trig))
          report_violation(qsite, "query:answer!=model", trig, J().str("hd_case", c.name).str("op", QL[qi].name).str("after_minimization", obs ? "yes" : "no").str("receiver_value", cstr(want)).done(), got, want_s);
      }
    }
    check_value(*g, want, site, "none", inj);
  }
}

// ------------------------------------------------------------------ equality family
// operator== / operator!= take syntactic shortcuts (Grid::quick_equivalence_test) that depend on the *form* of both
// operands.  For every value class this family collects objects denoting that value reached by different routes and
// brought to different lazy states -- every phase-A state and every high-dimension system, as is and after each of the
// observers minimized_congruences / is_empty / congruences / minimized_grid_generators / grid_generators+congruences --
// keeps those with pairwise different dumps (all the ones whose congruences are minimized first), and asks == and !=
// for all ordered pairs inside a class (expected: equal) and against the variants of the next classes (expected: different).
struct EqVar { Grid* g; int cls; int dim; std::string how; int state; std::string observer; };
static std::vector<EqVar> EQV;
static std::vector<std::vector<int> > EQCLS;          // per class (dense index): variants
static const int EQ_CHUNKS = 32;

static void build_eq() {
  if (ARGS.has("--no-eq")) return;
  size_t cap_min = ARGS.thorough() ? 20 : 12, cap_other = ARGS.thorough() ? 8 : 5;
  std::map<int, std::vector<int> > by_cls;
  std::map<int, std::pair<size_t, size_t> > counts;
  std::set<std::string> seen;
  static const char* obs[] = {"", "minimized_congruences()", "is_empty()", "congruences()", "minimized_grid_generators()", "grid_generators()+congruences()"};
  auto consider = [&](const Grid& base, int cls, int dim, const std::string& how, int state) {
    for (int o = 0; o < 6; ++o) {
      GP v(clone(base));
      try {
        switch (o) { case 1: (void)v->minimized_congruences(); break; case 2: (void)v->is_empty(); break; case 3: (void)v->congruences(); break;
          case 4: (void)v->minimized_grid_generators(); break; case 5: (void)v->grid_generators(); (void)v->congruences(); break; default: break; }
      } catch (...) { continue; }
      bool cmin = v->status.test_c_minimized();
      std::pair<size_t, size_t>& cnt = counts[cls];
      if (cmin ? cnt.first >= cap_min : cnt.second >= cap_other) continue;
      if (!seen.insert(std::to_string(cls) + "|" + dump_of(*v)).second) continue;
      (cmin ? cnt.first : cnt.second)++;
      EqVar e; e.g = v.release(); e.cls = cls; e.dim = dim; e.how = how + (o ? std::string(" + ") + obs[o] : std::string()); e.state = state; e.observer = obs[o];
      by_cls[cls].push_back((int)EQV.size()); EQV.push_back(e);
    }
  };
  // states with two or more congruence rows first: their minimal forms are the interesting ones
  for (int pass = 0; pass < 2; ++pass) for (size_t s = 0; s < ST.size(); ++s) {
    bool rich = ST[s].g->con_sys.num_rows() >= 2 && ST[s].g->status.test_c_up_to_date();
    if (rich != (pass == 0)) continue;
    consider(*ST[s].g, ST[s].cls, ST[s].dim, hist_json((int)s), (int)s);
  }
  for (size_t i = 0; i < HD.size(); ++i) {
    if (HD[i].incremental) continue;
    GP g; try { g.reset(hd_build(HD[i])); } catch (...) { continue; }
    int cls = CL.classify(hd_expect(HD[i]));
    consider(*g, cls, HD[i].dim, jstr(HD[i].name), -1);
  }
  for (auto& kv : by_cls) EQCLS.push_back(kv.second);
}

static void eq_ask(const EqVar& x, const EqVar& y, bool same) {
  for (int neq = 0; neq < 2; ++neq) {
    GP a(clone(*x.g)), b(clone(*y.g));
    bool r;
    try { r = neq ? (*a != *b) : (*a == *b); } catch (const std::exception& ex) { r = !same; }
    count(CNT_TRANS); count(CNT_CHECKS);
    bool want = neq ? !same : same;
    J j;
    if (x.state >= 0) { std::string h = hist_json(x.state); if (!x.observer.empty() && x.observer.find('+') == std::string::npos) h = h.substr(0, h.size() - 1) + (h.size() > 2 ? "," : "") + jstr(x.observer) + "]"; j.raw("history", h); }
    if (y.state >= 0) { std::string h = hist_json(y.state); if (!y.observer.empty() && y.observer.find('+') == std::string::npos) h = h.substr(0, h.size() - 1) + (h.size() > 2 ? "," : "") + jstr(y.observer) + "]"; j.raw("operand_history", h); }
    j.str("op", neq ? "operator!=" : "operator==").str("receiver", x.how).str("operand", y.how).str("receiver_value", cstr(x.cls)).str("operand_value", cstr(y.cls))
     .str("signature", signature(*x.g)).str("operand_signature", signature(*y.g));
    std::string site = neq ? "Grid::operator!=" : "Grid::operator==";
    std::string trig = same ? eq_trigger(*x.g, *y.g) : std::string("none");
    if (r != want && violcap().admit("eq|" + site + (same ? "|same|" : "|diff|") + trig))
      report_violation(site, same ? "query:equal-grids-reported-different" : "query:different-grids-reported-equal", trig, j.done(), r ? "true" : "false", want ? "true" : "false");
    std::string m = stored_mismatch(*a, x.cls) + stored_mismatch(*b, y.cls);
    if (!m.empty() && violcap().admit("eq|changed|" + site)) report_violation(site, "value:changed-by-query", "none", j.done(), m, "unchanged");
  }
}
static void run_eq(int chunk, long long& sub, long long sub_start) {
  size_t lo = EQCLS.size() * chunk / EQ_CHUNKS, hi = EQCLS.size() * (chunk + 1) / EQ_CHUNKS;
  for (size_t c = lo; c < hi; ++c) {
    long long my = sub++;
    if (!pool().want(my, sub_start)) continue;
    pool().step(my);
    const std::vector<int>& V = EQCLS[c];
    for (size_t i = 0; i < V.size(); ++i) for (size_t k = 0; k < V.size(); ++k) eq_ask(EQV[V[i]], EQV[V[k]], true);
    // against the first variants of the next classes (same dimension: different sets; other dimension: never equal)
    for (size_t d = 1; d <= 3 && c + d < EQCLS.size() + 3; ++d) {
      const std::vector<int>& W = EQCLS[(c + d) % EQCLS.size()];
      if (EQV[W[0]].cls == EQV[V[0]].cls) continue;
      for (size_t i = 0; i < V.size(); ++i) for (size_t k = 0; k < W.size() && k < 3; ++k) eq_ask(EQV[V[i]], EQV[W[k]], false);
    }
    count(CNT_STATES);
  }
}

// ------------------------------------------------------------------ replay of one recorded violation
static std::vector<std::string> json_string_array(const std::string& txt, const std::string& key) {
  std::vector<std::string> out;
  size_t p = txt.find("\"" + key + "\"");
  if (p == std::string::npos) return out;
  p = txt.find('[', p); if (p == std::string::npos) return out;
  for (size_t i = p + 1; i < txt.size(); ++i) {
    if (txt[i] == ']') break;
    if (txt[i] != '"') continue;
    std::string s; ++i;
    while (i < txt.size() && txt[i] != '"') { if (txt[i] == '\\' && i + 1 < txt.size()) { ++i; s += txt[i] == 'n' ? '\n' : txt[i]; } else s += txt[i]; ++i; }
    out.push_back(s);
  }
  return out;
}
static std::string json_string(const std::string& txt, const std::string& key) {
  size_t p = txt.find("\"" + key + "\"");
  if (p == std::string::npos) return "";
  p = txt.find(':', p); p = txt.find('"', p);
  std::string s; ++p;
  while (p < txt.size() && txt[p] != '"') { if (txt[p] == '\\' && p + 1 < txt.size()) { ++p; s += txt[p]; } else s += txt[p]; ++p; }
  return s;
}
static bool replay_history(const std::vector<std::string>& h, GP& g, RGrid& v) {
  if (h.empty()) return false;
  int dim = 0; char kind[16] = {0};
  if (sscanf(h[0].c_str(), "Grid(%d,%15[A-Z])", &dim, kind) != 2) return false;
  bool e = std::string(kind) == "EMPTY";
  g.reset(new Grid(dim, e ? PPL::EMPTY : PPL::UNIVERSE));
  v = e ? RGrid::bottom(dim) : RGrid::universe(dim);
  for (size_t i = 1; i < h.size(); ++i) {
    const Op* op = 0; for (size_t k = 0; k < OPS.size(); ++k) if (OPS[k].name == h[i]) op = &OPS[k];
    if (!op) { printf("unknown operation in history: %s\n", h[i].c_str()); return false; }
    op->apply(*g, 0); v = op->refv(v, 0);
    printf("  after %-50s model %s\n", h[i].c_str(), v.str().c_str());
  }
  return true;
}
static int replay(const std::string& file) {
  std::ifstream f(file.c_str()); std::stringstream ss; ss << f.rdbuf(); std::string txt = ss.str();
  std::string opname = json_string(txt, "op"), ctor = json_string(txt, "constructor");
  using namespace PPL::IO_Operators;
  std::string hdc = json_string(txt, "hd_case");
  if (!hdc.empty()) {
    for (size_t i = 0; i < HD.size(); ++i) if (HD[i].name == hdc) {
      GP g(hd_build(HD[i])); RGrid w = hd_expect(HD[i]);
      RGrid a = value_of(g->minimized_congruences(), HD[i].dim), b; value_of(g->minimized_grid_generators(), HD[i].dim, b);
      std::cout << "high-dimension case " << hdc << "\n  implementation: congruences " << g->congruences() << "\n                  generators " << g->grid_generators()
                << "\n  implementation (canonical): from congruences " << a.str() << " ; from generators " << b.str() << "\n  model:          " << w.str() << "\n";
      if (!opname.empty()) for (size_t k = 0; k < HDQ[HD[i].dim].size(); ++k) if (HDQ[HD[i].dim][k].name == opname) {
        GP h(hd_build(HD[i])); std::cout << "query " << opname << ": implementation " << HDQ[HD[i].dim][k].run(*h, 0) << " ; model " << HDQ[HD[i].dim][k].expect(w, 0) << "\n"; }
      return 0;
    }
    printf("unknown high-dimension case\n"); return 1;
  }
  if (!ctor.empty()) {
    for (size_t i = 0; i < CTORS.size(); ++i) if (CTORS[i].name == ctor) {
      GP g(CTORS[i].build()); RGrid w = CTORS[i].expect();
      std::cout << "constructor " << ctor << "\n  implementation: congruences " << g->congruences() << " ; generators " << g->grid_generators() << "\n  model: " << w.str() << "\n";
      return 0;
    }
    printf("unknown constructor\n"); return 1;
  }
  GP g, o; RGrid v, ov;
  printf("receiver history:\n");
  if (!replay_history(json_string_array(txt, "history"), g, v)) return 1;
  std::vector<std::string> oh = json_string_array(txt, "operand_history");
  if (!oh.empty()) { printf("operand history:\n"); if (!replay_history(oh, o, ov)) return 1; }
  printf("receiver dump before the operation:\n%s", dump_of(*g).c_str());
  for (size_t k = 0; k < QS.size(); ++k) if (QS[k].name == opname) {
    std::string got = QS[k].run(*g, o.get()), want = QS[k].expect(v, o ? &ov : 0);
    printf("query %s\n  implementation: %s\n  model:          %s\n  %s\n", opname.c_str(), got.c_str(), want.c_str(), matches(strip_at(got), want) ? "AGREE" : "DISAGREE");
    return 0;
  }
  for (size_t k = 0; k < OPS.size(); ++k) if (OPS[k].name == opname) {
    std::string ret = OPS[k].apply(*g, o.get());
    std::cout << "operation " << opname << " returned '" << ret << "'\n  implementation: congruences " << g->congruences() << "\n                  generators " << g->grid_generators() << "\n";
    if (OPS[k].refv) std::cout << "  model:          " << OPS[k].refv(v, o ? &ov : 0).str() << "\n";
    RGrid a = value_of(g->congruences(), g->space_dimension()), b; value_of(g->grid_generators(), g->space_dimension(), b);
    std::cout << "  implementation (canonical): from congruences " << a.str() << " ; from generators " << b.str() << "\n";
    return 0;
  }
  if (opname == "(observe)" || opname.empty()) {
    std::cout << "observe\n  implementation: congruences " << g->congruences() << "\n                  generators " << g->grid_generators() << "\n  model:          " << v.str() << "\n";
    return 0;
  }
  printf("unknown operation %s\n", opname.c_str());
  return 1;
}

// ------------------------------------------------------------------ main
int main(int argc, char** argv) {
  ARGS = parse_args(argc, argv);
  sink().open(ARGS.out);
  MAXDIM = atoi(ARGS.opt("--maxdim", ARGS.thorough() ? "3" : "2").c_str());
  int depth_full = atoi(ARGS.opt("--depth-full", "2").c_str());
  int depth = atoi(ARGS.opt("--depth", "3").c_str());
  int pool_classes = atoi(ARGS.opt("--pool", ARGS.thorough() ? "40" : "16").c_str());
  int pool_sigs = atoi(ARGS.opt("--poolsigs", ARGS.thorough() ? "3" : "2").c_str());
  bool all_states = ARGS.has("--all-states");
  build_menus();
  build_ops();
  build_queries();
  build_ctors();
  build_hd();
  if (!ARGS.replay.empty()) return replay(ARGS.replay);
  double t0 = now_s();
  phase_a(depth_full, std::max(depth, depth_full));
  double ta = now_s() - t0;
  bool phase_a_complete = ARGS.left() >= ARGS.deadline * 0.6;
  choose_reps(all_states, pool_classes, pool_sigs);
  { double te = now_s(); build_eq(); size_t np = 0; for (size_t i = 0; i < EQCLS.size(); ++i) np += EQCLS[i].size() * EQCLS[i].size();
    fprintf(stderr, "[grid] equality family: %zu variants in %zu classes, %zu same-class ordered pairs, built in %.1fs\n", EQV.size(), EQCLS.size(), np, now_s() - te); }
  fprintf(stderr, "[grid] phase A: depth=%d (full alphabet to %d) states=%zu transitions=%lld classes=%zu signatures=%zu reps=%zu groups=%zu pool=%zu ops=%zu queries=%zu ctors=%zu in %.1fs\n",
          depth, depth_full, ST.size(), TRANS_A, CL.vals.size(), SIGS.size(), REPS.size(), GROUPS.size(), POOL.size(), OPS.size(), QS.size(), CTORS.size(), ta);
  long long NG = (long long)GROUPS.size();
  Pool::Fn fn = [&](long long item, long long sub_start) {
    long long sub = 0;
    if (item >= NG + CTOR_CHUNKS + HD_CHUNKS) { run_eq((int)(item - NG - CTOR_CHUNKS - HD_CHUNKS), sub, sub_start); return; }
    if (item >= NG + CTOR_CHUNKS) { double t = now_s(); run_hd((int)(item - NG - CTOR_CHUNKS), sub, sub_start); if (getenv("VERIF_PROFILE")) fprintf(stderr, "hd chunk %lld %.1fs\n", item - NG - CTOR_CHUNKS, now_s() - t); return; }
    if (item >= NG) { double t = now_s(); run_ctors((int)(item - NG), sub, sub_start); if (getenv("VERIF_PROFILE")) fprintf(stderr, "ctor chunk %lld %.1fs\n", item - NG, now_s() - t); return; }
    double tg = now_s();
    for (size_t gi = 0; gi < GROUPS[item].size(); ++gi) {
      int s = GROUPS[item][gi];
      run_value_on(s, sub, sub_start);
      run_queries_on(s, sub, sub_start);
      run_ops_on(s, sub, sub_start);
      count(CNT_STATES);
    }
    if (getenv("VERIF_PROFILE") && now_s() - tg > 2) fprintf(stderr, "group %lld (%zu reps, %s) %.1fs\n", item, GROUPS[item].size(), cstr(ST[GROUPS[item][0]].cls).c_str(), now_s() - tg);
  };
  Pool::CrashFn cf = [&](long long item, long long sub, int sig, bool confirmed) {
    if (!confirmed) return;
    if (item >= NG + CTOR_CHUNKS + HD_CHUNKS) {
      size_t ci = EQCLS.size() * (item - NG - CTOR_CHUNKS - HD_CHUNKS) / EQ_CHUNKS + sub;
      std::string v = ci < EQCLS.size() ? cstr(EQV[EQCLS[ci][0]].cls) : "?";
      report_violation("Grid::operator==", std::string("crash:") + signame(sig), "none", J().str("equality_family_class", v).done(), signame(sig), "normal return");
      return;
    }
    if (item >= NG + CTOR_CHUNKS) {
      size_t hi_ = HD.size() * (item - NG - CTOR_CHUNKS) / HD_CHUNKS + sub;
      std::string nm = hi_ < HD.size() ? HD[hi_].name : "?";
      report_violation(hi_ < HD.size() ? hd_site(HD[hi_]) : std::string("Grid"), std::string("crash:") + signame(sig), "none", J().str("hd_case", nm).done(), signame(sig), "normal return");
      return;
    }
    if (item >= NG) {
      size_t ci = CTORS.size() * (item - NG) / CTOR_CHUNKS + sub;
      std::string nm = ci < CTORS.size() ? CTORS[ci].name : "?";
      report_violation("Grid::" + nm.substr(0, nm.find_first_of("{ ")), std::string("crash:") + signame(sig), "none", J().str("constructor", nm).done(), signame(sig), "normal return");
      return;
    }
    long long base = 0; int s = -1; std::string nm = "?";
    for (size_t gi = 0; gi < GROUPS[item].size(); ++gi) {
      long long cnt = substep_count(GROUPS[item][gi]);
      if (sub < base + cnt) { s = GROUPS[item][gi]; nm = substep_name(s, sub - base); break; }
      base += cnt;
    }
    if (s < 0) { sink().line(J().str("t", "error").str("msg", "crash at unknown sub-step").done()); return; }
    std::string opn = nm.substr(0, nm.find(" operand="));
    std::string trig = "none";
    int oper = LAST_OPERAND;
    for (size_t k = 0; k < OPS.size(); ++k) if (OPS[k].name == opn) trig = trigger_for_op(OPS[k], *ST[s].g, oper >= 0 ? ST[oper].g : 0, ST[s].cls);
    J cj; cj.raw("history", hist_json(s)).str("op", opn);
    if (oper >= 0) cj.raw("operand_history", hist_json(oper));
    report_violation(site_of(opn), std::string("crash:") + signame(sig), trig,
                     cj.str("receiver_value", cstr(ST[s].cls)).str("signature", ST[s].sig).str("detail", nm).done(), signame(sig), "normal return");
  };
  limit_memory(8ULL << 30);
  pool().run(NG + CTOR_CHUNKS + HD_CHUNKS + EQ_CHUNKS, ARGS.jobs, fn, cf, ARGS, 60);
  bool complete = phase_a_complete && counter(CNT_SKIPPED) == 0 && counter(CNT_REFCRASH) == 0;
  std::vector<std::string> samples;
  for (size_t i = 0; i < REPS.size(); i += std::max<size_t>(1, REPS.size() / 3)) samples.push_back(hist_json(REPS[i]));
  std::vector<std::string> sigs; for (auto& s : SIGS) sigs.push_back(jstr(s));
  J extra; extra.num("phaseA_states", ST.size()).num("phaseA_transitions", TRANS_A).num("value_classes_phaseA", CL.vals.size())
    .num("representatives", REPS.size()).num("operand_pool", POOL.size()).num("ops", OPS.size()).num("queries", QS.size()).num("constructor_cases", CTORS.size()).num("high_dimension_cases", HD.size()).num("equality_family_variants", EQV.size()).num("equality_family_classes", EQCLS.size())
    .num("oracle_comparisons", counter(CNT_CHECKS)).num("items_skipped_by_deadline", counter(CNT_SKIPPED)).num("cases_skipped_oracle_resource_limit", counter(CNT_REFCRASH))
    .boolean("phaseA_complete", phase_a_complete).arr("signatures_reached", sigs);
  J st; st.str("t", "stats").num("states", ST.size() + counter(CNT_STATES)).num("transitions", TRANS_A + counter(CNT_TRANS))
    .num("traces_validated_against_impl", TRANS_A + counter(CNT_TRANS)).boolean("exhaustive", complete)
    .str("bound", "grids of dimension 0.." + std::to_string(MAXDIM) + "; builder alphabet (" + std::to_string(CGM.size()) + " congruences, " + std::to_string(GGM.size()) + " generators, 8 observers) closed to depth "
         + std::to_string(depth_full) + ", core alphabet to depth " + std::to_string(depth) + "; " + (all_states ? "all states" : "one representative per (value class, lazy-state signature)") + " x every query / transformer / operand of the pool; plus the exhaustive high-dimension family (dimension " + std::string(ARGS.thorough() ? "4..6" : "5") + ": a point + <= 4 menu generators, <= 4 menu congruences, built by constructor and incrementally, " + std::to_string(HD.size()) + " systems); plus the equality family (== and != on all ordered pairs of differently-built / differently-observed objects of one value class, " + std::to_string(EQV.size()) + " variants)")
    .arr("samples", samples).raw("extra", extra.done()).dbl("wall_s", now_s() - t0);
  sink().line(st.done());
  return 0;
}

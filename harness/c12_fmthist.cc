// C12 part 3: "format history" dimension of linearisation.
// linearize() keeps per-analyser-type static caches (compute_absolute_error<FP_Interval_Type>() caches one interval per
// analysed format), so its result may depend on which analysed formats were linearised earlier in the same process.
// This harness enumerates exhaustively all SEQUENCES of analysed formats (the history) of bounded length, each in a
// fresh process, for every analyser bound type, and checks the linearisations of the LAST format of the sequence
//   (a) differential oracle: the linear form must be identical to the one obtained in a fresh process that has
//       linearised only this format (history independence);
//   (b) concrete oracle (formats that the FPU evaluates: SINGLE=float, DOUBLE=double, INTEL_DOUBLE_EXTENDED=long double):
//       for every concrete store of a finite set inside the abstract store and each IEEE rounding mode the FPU value of
//       the expression lies in the linear form evaluated exactly over Q.
// The menu contains stores in the denormal / underflow range of every concrete format (where the absolute error term
// dominates) and mixed-format trees  (f)(a op_g b)  that request two formats inside one linearisation.
#include "engine/common.hh"
#include "ppl-config.h"
#include "version.hh"
#include "ppl_include_files.hh"
#include "interfaces/interfaced_boxes.hh"
namespace Parma_Polyhedra_Library { extern Floating_Point_Format c12_analyzed_format; }
#define ANALYZED_FP_FORMAT (::Parma_Polyhedra_Library::c12_analyzed_format)
#include "tests/Concrete_Expression/C_Expr_defs.hh"
#include "harness/c12_ref.hh"
#include <fenv.h>
#include <cmath>
#include <limits>
#include <sys/stat.h>

namespace Parma_Polyhedra_Library { Floating_Point_Format c12_analyzed_format = IEEE754_SINGLE; }
namespace PPL = Parma_Polyhedra_Library;
namespace R = c12;
using R::Q; using R::RI; using R::RB;

enum { CNT_HIST = vf::CNT_USER, CNT_LIN, CNT_LIN_FALSE, CNT_DIFF_CMP, CNT_CONC, CNT_CONC_SKIP, CNT_MACH, CNT_CHILD_FAIL };

static const int FE_MODES[4] = { FE_TONEAREST, FE_UPWARD, FE_DOWNWARD, FE_TOWARDZERO };
static const char* FE_NAMES[4] = { "nearest", "upward", "downward", "towardzero" };

// ---- analysed formats ---------------------------------------------------------------------------
enum { F_HALF = 0, F_SINGLE, F_DOUBLE, F_IBM, F_QUAD, F_INTEL, NFMT };
static const PPL::Floating_Point_Format FMT_PPL[NFMT] = { PPL::IEEE754_HALF, PPL::IEEE754_SINGLE, PPL::IEEE754_DOUBLE, PPL::IBM_SINGLE, PPL::IEEE754_QUAD, PPL::INTEL_DOUBLE_EXTENDED };
static const char* FMT_NAME[NFMT] = { "HALF", "SINGLE", "DOUBLE", "IBM_SINGLE", "QUAD", "INTEL_DOUBLE_EXTENDED" };
static bool fmt_concrete(int f) { return f == F_SINGLE || f == F_DOUBLE || f == F_INTEL; }
static int fmt_rank(int f) { return f == F_SINGLE ? 1 : f == F_DOUBLE ? 2 : 3; }   // precision order of the concrete formats

static void viol(const std::string& site, const std::string& clause, const std::string& input, const std::string& obs, const std::string& exp, const std::string& detail) {
  vf::count(vf::CNT_VIOL);
  if (!vf::violcap().admit(site + "|" + clause)) return;
  vf::report_violation(site, clause, "none", input, obs, exp, detail);
}
static void mach_error(const std::string& msg) {
  vf::count(CNT_MACH);
  if (!vf::violcap().admit("MACH")) return;
  vf::J j; j.str("t", "error").str("msg", msg); vf::sink().line(j.done());
}

// ---- exact conversion of long double ------------------------------------------------------------
static Q ld_to_q(long double x) {
  if (x == 0) return Q(0);
  int e; long double m = frexpl(x, &e);
  long double s = ldexpl(m, 64);
  bool ng = s < 0; if (ng) s = -s;
  unsigned long long u = (unsigned long long)s;
  mpz_class z; mpz_import(z.get_mpz_t(), 1, 1, sizeof u, 0, 0, &u);
  Q q(z); if (ng) q = -q;
  e -= 64;
  if (e >= 0) mpq_mul_2exp(q.get_mpq_t(), q.get_mpq_t(), (unsigned long)e);
  else mpq_div_2exp(q.get_mpq_t(), q.get_mpq_t(), (unsigned long)(-e));
  return q;
}
static bool finite_ld(long double x) { return x == x && x != HUGE_VALL && x != -HUGE_VALL; }
static std::string hexld(long double x) { char b[80]; snprintf(b, sizeof b, "%La", x); return b; }

template <typename ITV> static bool read_fp(const ITV& z, RI& out) {
  if (z.is_empty()) { out = R::empty_ri(); return true; }
  RB lo, hi;
  if (z.lower_is_boundary_infinity()) lo = R::minf();
  else { long double v = z.lower(); if (v != v) return false; if (!finite_ld(v)) lo = v > 0 ? R::pinf() : R::minf(); else lo = R::fin(ld_to_q(v), z.lower_is_open()); }
  if (z.upper_is_boundary_infinity()) hi = R::pinf();
  else { long double v = z.upper(); if (v != v) return false; if (!finite_ld(v)) hi = v > 0 ? R::pinf() : R::minf(); else hi = R::fin(ld_to_q(v), z.upper_is_open()); }
  out = R::mk(lo, hi);
  return true;
}
template <typename ITV> static std::string digest_itv(const ITV& z) {
  if (z.is_empty()) return "[]";
  std::string s = z.lower_is_open() ? "(" : "[";
  s += z.lower_is_boundary_infinity() ? "-inf" : hexld((long double)z.lower());
  s += ",";
  s += z.upper_is_boundary_infinity() ? "+inf" : hexld((long double)z.upper());
  s += z.upper_is_open() ? ")" : "]";
  return s;
}

// ---- expression trees ---------------------------------------------------------------------------
enum NK { N_CONST, N_VAR, N_NEG, N_BIN, N_CAST };
static const char* CONSTS[] = { "0.5", "2", "3", "0.75" };      // dyadic: exact in every format and analyser type
static const long double CONSTV[] = { 0.5L, 2.0L, 3.0L, 0.75L };
static const int NCONST = 4;
static const char OPS[4] = { '+', '-', '*', '/' };

struct Node {
  NK k; int idx; char op; int fmt; const Node* l; const Node* r; std::string s;
  const PPL::Concrete_Expression<PPL::C_Expr>* ce;
  Node() : k(N_CONST), idx(0), op(0), fmt(F_SINGLE), l(0), r(0), ce(0) {}
};
static PPL::Concrete_Expression_Type fptype(int f) { return PPL::Concrete_Expression_Type::floating_point(FMT_PPL[f]); }
static Node* mk_leaf(NK k, int idx, int f) {
  Node* n = new Node; n->k = k; n->idx = idx; n->fmt = f;
  if (k == N_CONST) { n->s = CONSTS[idx]; PPL::c12_analyzed_format = FMT_PPL[f]; n->ce = new PPL::Floating_Point_Constant<PPL::C_Expr>(CONSTS[idx], strlen(CONSTS[idx]) + 1); }
  else { n->s = idx == 0 ? "x0" : "x1"; n->ce = new PPL::Approximable_Reference<PPL::C_Expr>(fptype(f), PPL::Integer_Interval(mpz_class(0)), idx); }
  return n;
}
static int bopcode(char op) { switch (op) { case '+': return PPL::Binary_Operator<PPL::C_Expr>::ADD; case '-': return PPL::Binary_Operator<PPL::C_Expr>::SUB; case '*': return PPL::Binary_Operator<PPL::C_Expr>::MUL; default: return PPL::Binary_Operator<PPL::C_Expr>::DIV; } }
static Node* mk_bin(char op, const Node* a, const Node* b, int f) {
  Node* n = new Node; n->k = N_BIN; n->op = op; n->l = a; n->r = b; n->fmt = f; n->s = "(" + a->s + " " + op + " " + b->s + ")";
  n->ce = new PPL::Binary_Operator<PPL::C_Expr>(fptype(f), bopcode(op), a->ce, b->ce); return n;
}
static Node* mk_neg(const Node* a, int f) {
  Node* n = new Node; n->k = N_NEG; n->l = a; n->fmt = f; n->s = "-(" + a->s + ")";
  n->ce = new PPL::Unary_Operator<PPL::C_Expr>(fptype(f), PPL::Unary_Operator<PPL::C_Expr>::UMINUS, a->ce); return n;
}
static Node* mk_cast(const Node* a, int f) {
  Node* n = new Node; n->k = N_CAST; n->l = a; n->fmt = f; n->s = std::string("(") + FMT_NAME[f] + ")" + a->s + ":" + FMT_NAME[a->fmt];
  n->ce = new PPL::Cast_Operator<PPL::C_Expr>(fptype(f), a->ce); return n;
}

// concrete evaluation: values are carried as long double (which holds every float / double exactly); each operation is
// performed in the format of its node through volatile temporaries of the C type of that format
template <typename T> static long double op_t(char op, long double a, long double b) {
  volatile T x = (T)a, y = (T)b; volatile T r;
  switch (op) { case '+': r = x + y; break; case '-': r = x - y; break; case '*': r = x * y; break; default: r = x / y; break; }
  return (long double)r;
}
template <typename T> static long double cast_t(long double a) { volatile long double w = a; volatile T r = (T)w; return (long double)r; }
static bool ceval(const Node* n, const long double* vars, long double& out) {
  switch (n->k) {
  case N_CONST: out = CONSTV[n->idx]; return true;
  case N_VAR: out = vars[n->idx]; return true;
  case N_NEG: { long double a; if (!ceval(n->l, vars, a)) return false; out = -a; return true; }
  case N_CAST: { long double a; if (!ceval(n->l, vars, a)) return false;
    out = n->fmt == F_SINGLE ? cast_t<float>(a) : n->fmt == F_DOUBLE ? cast_t<double>(a) : cast_t<long double>(a); return finite_ld(out); }
  default: { long double a, b; if (!ceval(n->l, vars, a) || !ceval(n->r, vars, b)) return false;
    out = n->fmt == F_SINGLE ? op_t<float>(n->op, a, b) : n->fmt == F_DOUBLE ? op_t<double>(n->op, a, b) : op_t<long double>(n->op, a, b); return finite_ld(out); }
  }
}
static bool all_concrete(const Node* n) { if (!n) return true; if (!fmt_concrete(n->fmt)) return false; return all_concrete(n->l) && all_concrete(n->r); }
static int var_fmt(const Node* n) {   // format in which the variables of the tree live (format of the innermost nodes)
  if (n->k == N_CAST) return var_fmt(n->l); return n->fmt;
}

// ---- concrete number systems --------------------------------------------------------------------
struct CF { long double dmin, minnorm, eps, maxv; };
static CF cf_of(int f) {
  CF c;
  if (f == F_SINGLE) { c.dmin = std::numeric_limits<float>::denorm_min(); c.minnorm = std::numeric_limits<float>::min(); c.eps = std::numeric_limits<float>::epsilon(); c.maxv = std::numeric_limits<float>::max(); }
  else if (f == F_DOUBLE) { c.dmin = std::numeric_limits<double>::denorm_min(); c.minnorm = std::numeric_limits<double>::min(); c.eps = std::numeric_limits<double>::epsilon(); c.maxv = std::numeric_limits<double>::max(); }
  else { c.dmin = std::numeric_limits<long double>::denorm_min(); c.minnorm = std::numeric_limits<long double>::min(); c.eps = std::numeric_limits<long double>::epsilon(); c.maxv = std::numeric_limits<long double>::max(); }
  return c;
}
static bool representable(long double v, int f) {
  if (f == F_SINGLE) { volatile float t = (float)v; return (long double)t == v; }
  if (f == F_DOUBLE) { volatile double t = (double)v; return (long double)t == v; }
  return true;
}

// a store menu entry: concrete points per variable, all representable in the value format `vf`
// asym != 0: the abstract store is the box x0 = [-6.5,1], x1 = [0,16] (asym 1) resp. the linear-form store
// x1 -> [-6.5,1]*x0 + [-1,1], x0 = [0,16] (asym 2); `pairs` then lists the concrete stores explicitly
struct StoreSpec { std::string name; int vfmt; std::vector<long double> p0, p1; int asym; std::vector<std::pair<long double, long double> > pairs; StoreSpec() : vfmt(0), asym(0) {} };
static long double ld_next(long double v, int f, bool up) {
  if (f == F_SINGLE) return (long double)nextafterf((float)v, up ? HUGE_VALF : -HUGE_VALF);
  if (f == F_DOUBLE) return (long double)nextafter((double)v, up ? HUGE_VAL : -HUGE_VAL);
  return nextafterl(v, up ? HUGE_VALL : -HUGE_VALL);
}
static long double ld_round(long double v, int f) {   // some value of format f next to v
  if (f == F_SINGLE) { volatile float t = (float)v; return t; }
  if (f == F_DOUBLE) { volatile double t = (double)v; return t; }
  return v;
}
static void keep_repr(std::vector<long double>& p, int f) {
  std::vector<long double> o; for (size_t k = 0; k < p.size(); ++k) if (finite_ld(p[k]) && representable(p[k], f)) o.push_back(p[k]);
  std::sort(o.begin(), o.end()); o.erase(std::unique(o.begin(), o.end()), o.end()); p = o;
}
// stores whose values live in format v, scaled to the denormal range of format s (d_s >= d_v)
static std::vector<StoreSpec> make_stores(int v, int s, bool thorough) {
  std::vector<StoreSpec> out; CF cs = cf_of(s), cv = cf_of(v); long double d = cs.dmin;
  std::string tag = std::string("v=") + FMT_NAME[v] + ",scale=" + FMT_NAME[s] + ":";
  { StoreSpec t; t.name = tag + "x0 in [d,3d], x1 in [0.25,2]"; t.vfmt = v;
    long double a[] = { d, 1.5L * d, 2 * d, 2.75L * d, 3 * d, 0.75L * d + d }; t.p0.assign(a, a + 6);
    long double b[] = { 0.25L, 0.5L, 0.75L, 1, 1 + cv.eps, 2 }; t.p1.assign(b, b + 6); out.push_back(t); }
  { StoreSpec t; t.name = tag + "x0 in [0.75d,3d], x1 in [-d,d]"; t.vfmt = v;
    long double a[] = { 0.75L * d, d, 1.5L * d, 3 * d }; t.p0.assign(a, a + 4);
    long double b[] = { -d, -0.25L * d, 0, 0.25L * d, 0.75L * d, d }; t.p1.assign(b, b + 6); out.push_back(t); }
  { StoreSpec t; t.name = tag + "x0 around min_normal, x1 in [d,d]"; t.vfmt = v;
    long double a[] = { cs.minnorm / 2, cs.minnorm * (1 - cs.eps / 2), cs.minnorm, cs.minnorm * (1 + cs.eps), cs.minnorm * 1.5L }; t.p0.assign(a, a + 5);
    long double b[] = { d }; t.p1.assign(b, b + 1); out.push_back(t); }
  if (v == s) {
    StoreSpec t; t.name = tag + "x0 in [1,2], x1 in [-3,-1/3]"; t.vfmt = v;
    long double third = v == F_SINGLE ? (long double)(1.0f / 3.0f) : v == F_DOUBLE ? (long double)(1.0 / 3.0) : 1.0L / 3.0L;
    long double a[] = { 1, 1 + cv.eps, 1.5L, 1 + third, 2 - cv.eps, 2 }; t.p0.assign(a, a + 6);
    long double b[] = { -3, -1 - cv.eps, -1, -third, -1.5L }; t.p1.assign(b, b + 5); out.push_back(t);
    if (thorough) { StoreSpec u; u.name = tag + "x0 in [-2,3], x1 in [max/4,max/2]"; u.vfmt = v;
      long double a2[] = { -2, -cv.eps, 0, 1 + third, 3 }; u.p0.assign(a2, a2 + 5);
      long double b2[] = { cv.maxv / 4, cv.maxv / 2 }; u.p1.assign(b2, b2 + 2); out.push_back(u); }
  }
  if (v == s) {
    // asymmetric zero-straddling intervals (|lower| > upper), judged at the end points, their neighbours and at
    // worst-case rounding companions (x0*x1 just beyond a power of two)
    CF c = cf_of(v);
    { StoreSpec t; t.name = tag + "x0 in [-6.5,1], x1 in [0,16] @edges"; t.vfmt = v; t.asym = 1;
      long double a[] = { -6.5L, ld_next(-6.5L, v, true), -2.75L, -c.dmin, 0, c.dmin, ld_next(1, v, false), 1 }; t.p0.assign(a, a + 8);
      long double b[] = { 0, c.dmin, 0.5L, 8, ld_next(16, v, false), 16 }; t.p1.assign(b, b + 6);
      for (int k = 0; k <= 4; ++k) { long double y = ld_round(ldexpl(1, k) / 6.5L, v); long double cand[3] = { y, ld_next(y, v, true), ld_next(y, v, false) };
        for (int j = 0; j < 3; ++j) if (cand[j] >= 0 && cand[j] <= 16) t.p1.push_back(cand[j]); }
      out.push_back(t); }
    { StoreSpec t; t.name = tag + "x1 -> [-6.5,1]*x0 + [-1,1], x0 in [0,16] @edges"; t.vfmt = v; t.asym = 2;
      long double xs[] = { 0, 0.5L, 1.25L, 3, 8, 10.5L, 16, ld_round(8 / 6.5L, v) };
      for (int a = 0; a < (v == F_INTEL ? 7 : 8); ++a) { long double x = xs[a];   // (6.5*x must be exact in long double)
        long double ys[] = { -6.5L * x - 1, x + 1, -6.5L * x, 0, ld_next(ld_round(-6.5L * x - 1, v), v, true), ld_next(ld_round(x + 1, v), v, false) };
        for (int b = 0; b < 6; ++b) if (representable(ys[b], v) && ys[b] >= -6.5L * x - 1 && ys[b] <= x + 1) t.pairs.push_back(std::make_pair(x, ys[b])); }
      long double a[] = { 0, 16 }; t.p0.assign(a, a + 2); long double b[] = { -105, 17 }; t.p1.assign(b, b + 2);
      out.push_back(t); }
  }
  for (size_t k = 0; k < out.size(); ++k) {
    keep_repr(out[k].p0, v); keep_repr(out[k].p1, v);
    if (out[k].pairs.empty()) for (size_t a = 0; a < out[k].p0.size(); ++a) for (size_t b = 0; b < out[k].p1.size(); ++b) out[k].pairs.push_back(std::make_pair(out[k].p0[a], out[k].p1[b]));
  }
  return out;
}

// ---- per analyser type ---------------------------------------------------------------------------
template <typename A> struct ANAME;
template <> struct ANAME<float> { static const char* n() { return "float"; } };
template <> struct ANAME<double> { static const char* n() { return "double"; } };
template <> struct ANAME<long double> { static const char* n() { return "long_double"; } };

struct Job { std::string tag; const Node* tree; size_t store; };   // one linearisation

template <typename A> struct HW {
  typedef PPL::Interval<A, PPL::Floating_Point_Box_Interval_Info> FPI;
  typedef PPL::Linear_Form<FPI> LF;
  typedef PPL::Box<FPI> IStore;
  typedef std::map<PPL::dimension_type, LF> LStore;
  struct Oracle : public PPL::FP_Oracle<PPL::C_Expr, FPI> {
    IStore box;
    Oracle() : box(2) {}
    bool get_interval(PPL::dimension_type dim, FPI& result) const { result = box.get_interval(PPL::Variable(dim)); return true; }
    bool get_fp_constant_value(const PPL::Floating_Point_Constant<PPL::C_Expr>& expr, FPI& result) const { result = FPI((const char*)expr.value); result.topological_closure_assign(); return true; }
    bool get_integer_expr_value(const PPL::Concrete_Expression<PPL::C_Expr>&, FPI&) const { return false; }
    bool get_associated_dimensions(const PPL::Approximable_Reference<PPL::C_Expr>& expr, std::set<PPL::dimension_type>& result) const { result = expr.dimensions; return true; }
  };
  struct Store { StoreSpec spec; Oracle oracle; LStore lf; };

  int saved_round;
  // the menu of one analysed format: stores + trees
  struct Menu { std::vector<Store*> stores; std::vector<std::pair<const Node*, size_t> > jobs; };
  Menu menus[NFMT];

  static FPI hull_itv(const std::vector<long double>& p) {
    // outward rounding of the extreme points into the analyser type
    int sr = fegetround();
    fesetround(FE_DOWNWARD); volatile long double lo = p.front(); volatile A l = (A)lo;
    fesetround(FE_UPWARD); volatile long double hi = p.back(); volatile A h = (A)hi;
    fesetround(sr);
    A la = l, ha = h; FPI z; z.build(PPL::i_constraint(PPL::GREATER_OR_EQUAL, la), PPL::i_constraint(PPL::LESS_OR_EQUAL, ha)); return z;
  }
  Store* mk_store(const StoreSpec& sp) {
    Store* s = new Store; s->spec = sp;
    s->oracle.box.set_interval(PPL::Variable(0), hull_itv(sp.p0)); s->oracle.box.set_interval(PPL::Variable(1), hull_itv(sp.p1));
    if (sp.asym == 2) {
      A cl = (A)-6.5, ch = (A)1, dl = (A)-1, dh = (A)1; FPI c, d;
      c.build(PPL::i_constraint(PPL::GREATER_OR_EQUAL, cl), PPL::i_constraint(PPL::LESS_OR_EQUAL, ch)); d.build(PPL::i_constraint(PPL::GREATER_OR_EQUAL, dl), PPL::i_constraint(PPL::LESS_OR_EQUAL, dh));
      LF f(PPL::Variable(0)); f *= c; f += d; s->lf[1] = f;
    }
    return s;
  }
  // all trees over format f of depth <= 1, a family of depth 2 trees, and (for concrete f) mixed trees (f)(a op_g b)
  void build_menu(int f, bool thorough) {
    Menu& m = menus[f];
    std::vector<const Node*> leaves; leaves.push_back(mk_leaf(N_VAR, 0, f)); leaves.push_back(mk_leaf(N_VAR, 1, f));
    for (int k = 0; k < NCONST; ++k) leaves.push_back(mk_leaf(N_CONST, k, f));
    std::vector<const Node*> pure;
    for (size_t a = 0; a < leaves.size(); ++a) pure.push_back(leaves[a]);
    pure.push_back(mk_neg(leaves[0], f));
    std::vector<const Node*> d1;
    for (int o = 0; o < 4; ++o) for (size_t a = 0; a < leaves.size(); ++a) for (size_t b = 0; b < leaves.size(); ++b) {
      if (leaves[a]->k == N_CONST && leaves[b]->k == N_CONST) continue;
      d1.push_back(mk_bin(OPS[o], leaves[a], leaves[b], f));
    }
    pure.insert(pure.end(), d1.begin(), d1.end());
    // depth 2: root over subtrees built from {x0, x1, 0.5}
    std::vector<const Node*> sub; sub.push_back(leaves[0]); sub.push_back(leaves[1]); sub.push_back(leaves[2]);
    size_t nl = sub.size();
    for (int o = 0; o < 4; ++o) for (size_t a = 0; a < nl; ++a) for (size_t b = 0; b < nl; ++b) { if (a == 2 && b == 2) continue; if (!thorough && o == 3 && a != 2 && b != 2) continue; sub.push_back(mk_bin(OPS[o], sub[a], sub[b], f)); }
    for (int o = 0; o < 4; ++o) for (size_t a = 0; a < sub.size(); ++a) for (size_t b = 0; b < sub.size(); ++b) {
      if (a < nl && b < nl) continue;
      if (!thorough && !((a < nl) || (b < nl))) continue;     // quick: one side is a leaf
      pure.push_back(mk_bin(OPS[o], sub[a], sub[b], f));
    }
    // stores for the pure trees: values in f, scaled to the denormal range of every concrete format not finer than f
    int vfm = fmt_concrete(f) ? f : F_SINGLE;
    for (int s = 0; s < NFMT; ++s) {
      if (!fmt_concrete(s) || fmt_rank(s) > fmt_rank(vfm)) continue;
      std::vector<StoreSpec> ss = make_stores(vfm, s, thorough);
      for (size_t k = 0; k < ss.size(); ++k) { m.stores.push_back(mk_store(ss[k])); for (size_t t = 0; t < pure.size(); ++t) m.jobs.push_back(std::make_pair(pure[t], m.stores.size() - 1)); }
    }
    // mixed trees: (f)(a op_g b) and (f)(a op_g b) op_f c, variables living in g
    if (fmt_concrete(f)) for (int g = 0; g < NFMT; ++g) {
      if (!fmt_concrete(g) || g == f) continue;
      std::vector<const Node*> gl; gl.push_back(mk_leaf(N_VAR, 0, g)); gl.push_back(mk_leaf(N_VAR, 1, g)); gl.push_back(mk_leaf(N_CONST, 0, g)); gl.push_back(mk_leaf(N_CONST, 2, g));
      std::vector<const Node*> mixed;
      mixed.push_back(mk_cast(gl[0], f));
      for (int o = 0; o < 4; ++o) for (size_t a = 0; a < gl.size(); ++a) for (size_t b = 0; b < gl.size(); ++b) {
        if (gl[a]->k == N_CONST && gl[b]->k == N_CONST) continue;
        const Node* c = mk_cast(mk_bin(OPS[o], gl[a], gl[b], g), f);
        mixed.push_back(c);
        if (thorough || (a < 2 && b < 2)) { mixed.push_back(mk_bin('*', c, leaves[2], f)); mixed.push_back(mk_bin('+', c, mk_cast(gl[1], f), f)); }
      }
      int lo = fmt_rank(f) < fmt_rank(g) ? f : g;   // coarser of the two: its denormal range is where the cast rounds
      for (int s = 0; s < NFMT; ++s) {
        if (!fmt_concrete(s) || fmt_rank(s) > fmt_rank(g)) continue;
        if (s != lo && s != g) continue;
        std::vector<StoreSpec> ss = make_stores(g, s, thorough);
        for (size_t k = 0; k < ss.size(); ++k) { m.stores.push_back(mk_store(ss[k])); for (size_t t = 0; t < mixed.size(); ++t) m.jobs.push_back(std::make_pair(mixed[t], m.stores.size() - 1)); }
      }
    }
  }
  void init(bool thorough) { saved_round = fegetround(); for (int f = 0; f < NFMT; ++f) build_menu(f, thorough); }

  static bool read_form(const LF& f, RI coef[3]) {
    coef[0] = R::point_ri(0); coef[1] = R::point_ri(0); coef[2] = R::point_ri(0);
    if (f.space_dimension() > 2) return false;
    if (!read_fp(f.inhomogeneous_term(), coef[0])) return false;
    for (PPL::dimension_type d = 0; d < f.space_dimension(); ++d) if (!read_fp(f.coefficient(PPL::Variable(d)), coef[d + 1])) return false;
    return true;
  }
  static std::string digest(bool ok, const LF& f) {
    if (!ok) return "false";
    std::string s = digest_itv(f.inhomogeneous_term());
    for (PPL::dimension_type d = 0; d < f.space_dimension(); ++d) s += " + " + digest_itv(f.coefficient(PPL::Variable(d))) + "*x" + (d == 0 ? "0" : "1");
    return s;
  }
  static std::string hist_str(const std::vector<int>& h) { std::string s; for (size_t k = 0; k < h.size(); ++k) { if (k) s += ","; s += FMT_NAME[h[k]]; } return s; }

  // runs in a FRESH process.  mode 0: write the reference digests of format h.back() (history of length 1);
  // mode 1: compare with the reference file.  The concrete oracle is applied to the last format in both modes.
  void run_history(const std::vector<int>& h, const std::string& refdir, bool write_ref) {
    std::string site = std::string("linearize<") + ANAME<A>::n() + ">";
    for (size_t step = 0; step < h.size(); ++step) {
      int f = h[step]; Menu& m = menus[f]; bool last = step + 1 == h.size();
      std::string refpath = refdir + "/" + ANAME<A>::n() + "-" + FMT_NAME[f] + ".ref";
      FILE* ref = 0;
      if (last) { ref = fopen(refpath.c_str(), write_ref ? "w" : "r"); if (!ref) { mach_error("cannot open " + refpath); return; } }
      char* line = 0; size_t cap = 0;
      for (size_t j = 0; j < m.jobs.size(); ++j) {
        const Node* t = m.jobs[j].first; Store& st = *m.stores[m.jobs[j].second];
        LF result;
        bool ok = PPL::linearize(*t->ce, st.oracle, st.lf, result);
        if (fegetround() != saved_round) { mach_error("rounding mode changed by linearize"); fesetround(saved_round); }
        if (!last) continue;
        vf::count(CNT_LIN); vf::count(vf::CNT_TRANS); if (!ok) vf::count(CNT_LIN_FALSE);
        std::string dg = digest(ok, result);
        vf::J in; in.str("analyser", ANAME<A>::n()).str("history", hist_str(h)).str("format", FMT_NAME[f]).str("expr", t->s).str("store", st.spec.name).num("job", (long long)j);
        // (a) differential oracle
        if (write_ref) fprintf(ref, "%s\n", dg.c_str());
        else {
          ssize_t n = getline(&line, &cap, ref);
          if (n <= 0) { mach_error("reference file too short: " + refpath); break; }
          if (line[n - 1] == '\n') line[n - 1] = 0;
          vf::count(CNT_DIFF_CMP);
          if (dg != line) viol(site, "history_dependence", in.done(), dg, line,
                               "the linearisation of this expression differs from the one computed in a fresh process that linearised only this analysed format: the result depends on the formats linearised before (static cache)");
          else continue;   // identical to the fresh-process form, which the length-1 history has judged with the concrete oracle
        }
        // (b) concrete oracle
        if (!ok || !all_concrete(t)) continue;
        RI coef[3];
        if (!read_form(result, coef)) { viol(site, "invariant", in.done(), "NaN coefficient", "well-formed linear form", "ill-formed result"); continue; }
        bool bad = false;
        for (size_t pi = 0; pi < st.spec.pairs.size() && !bad; ++pi) {
          long double v[2] = { st.spec.pairs[pi].first, st.spec.pairs[pi].second };
          RI E; bool have = false;
          for (int md = 0; md < 4 && !bad; ++md) {
            fesetround(FE_MODES[md]); feclearexcept(FE_ALL_EXCEPT);
            long double out = 0; bool okc = ceval(t, v, out);
            if (fetestexcept(FE_OVERFLOW | FE_DIVBYZERO | FE_INVALID)) okc = false;
            feclearexcept(FE_ALL_EXCEPT); fesetround(saved_round);
            vf::count(CNT_CONC);
            if (!okc) { vf::count(CNT_CONC_SKIP); continue; }
            if (!have) { E = coef[0]; for (int d = 0; d < 2; ++d) E = R::add(E, R::mul(coef[d + 1], R::point_ri(ld_to_q(v[d])))); have = true; }
            if (!R::has(E, ld_to_q(out))) {
              vf::J i2 = in; i2.str("x0", hexld(v[0])).str("x1", hexld(v[1])).str("rounding", FE_NAMES[md]);
              viol(site, "enclosure", i2.done(), "concrete value " + hexld(out), "in " + R::str(E) + " = eval(" + dg + ")",
                   "the concrete FPU value of the expression (analysed format(s) as annotated) is outside the evaluated linear form");
              bad = true;
            }
          }
        }
      }
      if (ref) fclose(ref);
      free(line);
    }
  }
};

// ---- process pool: one fresh process per (analyser, history) ---------------------------------------
struct Task { int analyser; std::vector<int> hist; bool write_ref; };
static HW<float>* g_f; static HW<double>* g_d; static HW<long double>* g_l;
static std::string g_refdir;
static void run_task(const Task& t) {
  if (t.analyser == 0) g_f->run_history(t.hist, g_refdir, t.write_ref);
  else if (t.analyser == 1) g_d->run_history(t.hist, g_refdir, t.write_ref);
  else g_l->run_history(t.hist, g_refdir, t.write_ref);
}
static const char* ANAMES[3] = { "float", "double", "long_double" };
static void run_tasks(const std::vector<Task>& tasks, int jobs, const vf::Args& args) {
  size_t next = 0; int live = 0; std::map<pid_t, size_t> who;
  while (next < tasks.size() || live > 0) {
    while (next < tasks.size() && live < jobs) {
      if (args.expired()) { vf::count(vf::CNT_SKIPPED); ++next; continue; }
      fflush(stdout); fflush(stderr);
      pid_t p = fork();
      if (p < 0) { perror("fork"); exit(3); }
      if (p == 0) { alarm(600); run_task(tasks[next]); fflush(stdout); _exit(0); }
      who[p] = next; ++next; ++live; vf::count(CNT_HIST);
    }
    if (live == 0) break;
    int st; pid_t p = wait(&st);
    if (p < 0) break;
    --live;
    if (!(WIFEXITED(st) && WEXITSTATUS(st) == 0)) {
      vf::count(CNT_CHILD_FAIL);
      const Task& t = tasks[who[p]];
      std::string hs; for (size_t k = 0; k < t.hist.size(); ++k) { if (k) hs += ","; hs += FMT_NAME[t.hist[k]]; }
      int sig = WIFSIGNALED(st) ? WTERMSIG(st) : 0;
      vf::J in; in.str("analyser", ANAMES[t.analyser]).str("history", hs);
      vf::report_violation(std::string("linearize<") + ANAMES[t.analyser] + ">", std::string("crash:") + vf::signame(sig), "none", in.done(), vf::signame(sig), "no crash", "the process linearising this format history crashed or hung");
    }
  }
}

int main(int argc, char** argv) {
  vf::Args args = vf::parse_args(argc, argv);
  vf::sink().open(args.out);
  vf::shared();
  std::string menu = args.opt("--menu", args.thorough() ? "thorough" : "quick");
  bool thorough = menu == "thorough";
  int maxlen = atoi(args.opt("--maxlen", "3").c_str());
  double t0 = vf::now_s();
  // NOTE: the parent never calls linearize(): every history starts from untouched static caches
  HW<float> wf; wf.init(thorough); HW<double> wd; wd.init(thorough); HW<long double> wl; wl.init(thorough);
  g_f = &wf; g_d = &wd; g_l = &wl;
  char tmpl[] = "/tmp/c12fh-XXXXXX"; if (!mkdtemp(tmpl)) { perror("mkdtemp"); return 3; } g_refdir = tmpl;

  if (!args.replay.empty()) {
    // re-run the recorded history (and the fresh reference of its last format) and print what happens
    std::ifstream f(args.replay.c_str()); std::stringstream ss; ss << f.rdbuf(); std::string txt = ss.str();
    size_t ip = txt.find("\"input\""); std::string in = ip == std::string::npos ? txt : txt.substr(ip);
    auto js = [&](const std::string& key) { size_t p = in.find("\"" + key + "\""); if (p == std::string::npos) return std::string(); p = in.find(':', p); p = in.find('"', p); size_t e = in.find('"', p + 1); return in.substr(p + 1, e - p - 1); };
    std::string an = js("analyser"), hs = js("history");
    Task t; t.analyser = an == "float" ? 0 : an == "double" ? 1 : 2; t.write_ref = false;
    std::stringstream hh(hs); std::string tok; while (std::getline(hh, tok, ',')) for (int k = 0; k < NFMT; ++k) if (tok == FMT_NAME[k]) t.hist.push_back(k);
    if (t.hist.empty()) { fprintf(stderr, "replay: no history in record\n"); return 2; }
    Task r = t; r.hist.assign(1, t.hist.back()); r.write_ref = true;
    std::vector<Task> a(1, r), b(1, t);
    vf::sink().open("");   // print records to stdout
    printf("replay: analyser=%s: fresh reference for %s, then history %s\n", an.c_str(), FMT_NAME[t.hist.back()], hs.c_str());
    run_tasks(a, 1, args); run_tasks(b, 1, args);
    printf("replay: %lld linearisations checked, %lld violations\n", vf::counter(CNT_LIN), vf::counter(vf::CNT_VIOL));
    std::string cmd = "rm -rf " + g_refdir; if (system(cmd.c_str())) {}
    return 0;
  }

  // phase A: histories of length 1 (fresh references), phase B: all longer histories
  std::vector<Task> A, B;
  for (int a = 0; a < 3; ++a) for (int f = 0; f < NFMT; ++f) { Task t; t.analyser = a; t.hist.assign(1, f); t.write_ref = true; A.push_back(t); }
  // quick: length 2 over all six formats, length 3 over the FPU-evaluable formats; thorough: length <= 3 over all six
  for (int a = 0; a < 3; ++a) {
    for (int f1 = 0; f1 < NFMT; ++f1) for (int f2 = 0; f2 < NFMT; ++f2) { if (maxlen < 2) continue; Task t; t.analyser = a; t.write_ref = false; t.hist.push_back(f1); t.hist.push_back(f2); B.push_back(t); }
    for (int f1 = 0; f1 < NFMT; ++f1) for (int f2 = 0; f2 < NFMT; ++f2) for (int f3 = 0; f3 < NFMT; ++f3) {
      if (maxlen < 3) continue;
      if (!thorough && !(fmt_concrete(f1) && fmt_concrete(f2) && fmt_concrete(f3))) continue;
      Task t; t.analyser = a; t.write_ref = false; t.hist.push_back(f1); t.hist.push_back(f2); t.hist.push_back(f3); B.push_back(t);
    }
  }
  size_t njobs = 0; for (int f = 0; f < NFMT; ++f) njobs += wd.menus[f].jobs.size();
  fprintf(stderr, "[c12_fmthist] menu=%s: %zu fresh references + %zu longer histories, %zu (tree,store) linearisations per analyser over the 6 formats\n", menu.c_str(), A.size(), B.size(), njobs);
  run_tasks(A, args.jobs, args);
  run_tasks(B, args.jobs, args);
  { std::string cmd = "rm -rf " + g_refdir; if (system(cmd.c_str())) {} }

  bool exhaustive = vf::counter(vf::CNT_SKIPPED) == 0 && vf::counter(CNT_CHILD_FAIL) == 0;
  vf::J extra;
  extra.num("format_histories", vf::counter(CNT_HIST)).num("linearize_calls_checked", vf::counter(CNT_LIN)).num("linearize_returned_false", vf::counter(CNT_LIN_FALSE))
       .num("differential_comparisons", vf::counter(CNT_DIFF_CMP)).num("concrete_fpu_evaluations", vf::counter(CNT_CONC)).num("concrete_evaluations_skipped_runtime_error", vf::counter(CNT_CONC_SKIP))
       .num("tree_store_pairs_per_analyser", (long long)njobs).num("violation_records_total", vf::counter(vf::CNT_VIOL)).num("histories_skipped_deadline", vf::counter(vf::CNT_SKIPPED));
  std::vector<std::string> samples;
  samples.push_back(vf::jstr("analyser double, history DOUBLE,SINGLE: (x0 * 0.5) with x0 in [2^-149, 3*2^-149] (single denormals)"));
  samples.push_back(vf::jstr("analyser double, history SINGLE: (SINGLE)(x0 + x1):DOUBLE with x0 = 3*2^-151"));
  samples.push_back(vf::jstr("analyser long_double, history QUAD,INTEL_DOUBLE_EXTENDED,SINGLE"));
  vf::J st; st.str("t", "stats").num("states", vf::counter(CNT_HIST) > 0 ? vf::counter(CNT_HIST) : 1).num("transitions", vf::counter(vf::CNT_TRANS) > 0 ? vf::counter(vf::CNT_TRANS) : 1)
    .num("traces_validated_against_impl", vf::counter(CNT_CONC) + vf::counter(CNT_DIFF_CMP)).boolean("exhaustive", exhaustive)
    .str("bound", std::string("menu '") + menu + "': every sequence (history) of analysed formats of length <= " + std::to_string(maxlen) + " over {HALF, SINGLE, DOUBLE, IBM_SINGLE, QUAD, INTEL_DOUBLE_EXTENDED}"
         + (thorough ? "" : " (length 3: over SINGLE, DOUBLE, INTEL_DOUBLE_EXTENDED only)") + ", each in a fresh process, for analyser bound types float, double, long double; per format: all trees of depth <= 1 over {x0, x1, 0.5, 2, 3, 0.75}, "
           "depth-2 trees over subtrees of {x0, x1, 0.5}" + (thorough ? "" : " (one side a leaf)") + ", mixed-format trees (f)(a op_g b) [* 0.5 | + (f)x1]; stores: denormal range of every concrete format not finer than the value format "
           "(x0 in [d,3d], [-d,d], around min_normal) and a normal-range store; oracles: identity with the fresh-process linearisation + FPU evaluation under 4 rounding modes for SINGLE/DOUBLE/INTEL formats")
    .arr("samples", samples).raw("extra", extra.done()).dbl("wall_s", vf::now_s() - t0);
  vf::sink().line(st.done());
  return 0;
}

// Stand-alone reproducers for the C11 known findings (link against libppl)
#include "ppl-config.h"
#include "version.hh"
#include "ppl_include_files.hh"
#include <cstdio>
using namespace Parma_Polyhedra_Library;
typedef Debug_WRD_Extended_Number_Policy D; typedef WRD_Extended_Number_Policy W;
#define SHOW(what, r, val) std::cout << what << " -> Result " << (int)(r) << " stored " << val << std::endl
int main(int argc, char** argv) {
  int which = argc > 1 ? atoi(argv[1]) : 0;
  { // 1
    Checked_Number<int8_t, D> x(7, ROUND_IGNORE), y(-2, ROUND_IGNORE), z;
    Result r = div_assign_r(z, x, y, ROUND_DOWN);
    SHOW("1. int8 7 / -2 ROUND_DOWN (exact -3.5; V_GT=4 claims exact > stored)", r, (int)raw_value(z)); }
  { // 2
    Checked_Number<float, Extended_Number_Policy> to(PLUS_INFINITY, ROUND_IGNORE), x(3.0f, ROUND_IGNORE), y(-3.4028235e38f, ROUND_IGNORE);
    Result r = add_mul_assign_r(to, x, y, ROUND_DOWN);
    SHOW("2. float +inf + 3*(-FLT_MAX) ROUND_DOWN (exact +inf; V_NAN=48)", r, raw_value(to)); }
  { // 3
    Checked_Number<int32_t, D> i; Result r = assign_r(i, 2147483648.0f, ROUND_UP);
    SHOW("3. int32 <- 2^31 (float) ROUND_UP (V_EQ=1)", r, raw_value(i));
    int32_t j; r = assign_r(j, 2147483648.0f, ROUND_DOWN);
    SHOW("3b. raw int32 <- 2^31 (float) ROUND_DOWN (V_EQ=1)", r, j); }
  { // 4
    Checked_Number<mpz_class, W>* p = (Checked_Number<mpz_class, W>*)malloc(sizeof(Checked_Number<mpz_class, W>));
    Result r = construct(*p, 2.5, ROUND_DOWN);
    SHOW("4. construct mpz <- 2.5 ROUND_DOWN (V_GT=4 claims exact > stored)", r, raw_value(*p)); }
  { // 5
    Checked_Number<mpz_class, W> x(mpz_class(2), ROUND_IGNORE), y(mpz_class(2), ROUND_IGNORE);
    Result r = div_assign_r(x, x, y, ROUND_UP | ROUND_STRICT_RELATION);
    SHOW("5. mpz x = 2; x /= 2 in place, ROUND_UP|STRICT (V_LT=2 claims inexact)", r, raw_value(x));
    Checked_Number<mpz_class, W> u(mpz_class(1), ROUND_IGNORE);
    r = div_2exp_assign_r(u, u, 1, ROUND_DOWN | ROUND_STRICT_RELATION);
    SHOW("5b. mpz u = 1; u /= 2^1 in place, ROUND_DOWN|STRICT (V_EQ=1 claims exact)", r, raw_value(u)); }
  if (which == 6) { // 6 crash
    int32_t to, x = INT32_MIN, y = 65535; Result r = lcm_assign_r(to, x, y, ROUND_DOWN);
    SHOW("6c. raw int32 lcm(INT_MIN, 65535)", r, to); }
  { int8_t to, x = -88, y = -128; Result r = lcm_assign_r(to, x, y, ROUND_UP);
    SHOW("6. raw int8 lcm(-88, -128) ROUND_UP (exact 1408; V_LT_INF=66 claims negative overflow)", r, (int)to); }
  { // 7
    Checked_Number<mpq_class, W> x(mpq_class(1, 2), ROUND_IGNORE), s;
    Result r = sqrt_assign_r(s, x, ROUND_UP);
    mpq_class v = raw_value(s);
    SHOW("7. sqrt(1/2) ROUND_UP (V_GE=5 claims exact >= stored) sign(stored^2 - 1/2) = " << sgn(v * v - mpq_class(1, 2)), r, "...");
    Checked_Number<mpq_class, W> two(mpq_class(2), ROUND_IGNORE);
    r = sqrt_assign_r(s, two, ROUND_IGNORE); v = raw_value(s);
    SHOW("7b. sqrt(2) ROUND_IGNORE (V_LE=3 claims exact <= stored) sign(stored^2 - 2) = " << sgn(v * v - 2), r, "..."); }
  if (which == 7) {
    Checked_Number<mpq_class, W> x(mpq_class(1), ROUND_IGNORE), s; Result r = sqrt_assign_r(s, x, ROUND_NOT_NEEDED);
    SHOW("7c. sqrt(1) ROUND_NOT_NEEDED", r, raw_value(s)); }
  { // 8
    Checked_Number<int32_t, W> x(1073741824, ROUND_IGNORE), s; Result r = sqrt_assign_r(s, x, ROUND_DOWN);
    SHOW("8. int32 sqrt(2^30) ROUND_DOWN (exact 32768)", r, raw_value(s)); }
  { // 9
    int8_t to = 0, x = -128, y = -1; Result r = sub_mul_assign_r(to, x, y, ROUND_UP);
    SHOW("9. raw int8 0 - (-128 * -1) ROUND_UP (exact -128 is representable; V_LT_INF=66)", r, (int)to); }
  { // 10
    Checked_Number<int8_t, W> x(-1, ROUND_IGNORE), m; Result r = umod_2exp_assign_r(m, x, 7, ROUND_UP);
    SHOW("10. ext int8 umod_2exp(-1, 7) (exact 127 > max 126): is_plus_infinity = " << is_plus_infinity(m), r, (int)raw_value(m)); }
  { // 11
    Checked_Number<mpz_class, W> z; Result r = assign_r(z, -0.0009765625L, ROUND_DOWN);
    SHOW("11. mpz <- -1/1024 (long double) ROUND_DOWN (expected -1)", r, raw_value(z)); }
  { // 12
    uint64_t u; Result r = assign_r(u, 18446744073709551615.0L, ROUND_UP);
    SHOW("12. raw uint64 <- 2^64-1 (long double) ROUND_UP (representable, expected V_EQ)", r, u); }
  return 0;
}

// C14 part 2 scenarios: rational boxes, bounded-difference shapes, octagonal shapes, powersets of polyhedra.
#include "harness/c14_oom.hh"

namespace c14 {

static const Variable A(0), B(1), C(2), D(3);
typedef BD_Shape<mpq_class> BDS;
typedef Octagonal_Shape<mpq_class> OCT;
typedef Pointset_Powerset<C_Polyhedron> PS;

enum { ST_CONS = 0, ST_CLOSED = 1, ST_GENS = 2 };

// ---- weakly-relational shapes: BD_Shape and Octagonal_Shape share the alphabet -------------------
template <typename SH> struct ShapeKind { enum { oct = 0 }; };
template <> struct ShapeKind<OCT> { enum { oct = 1 }; };

template <typename SH> static Constraint_System sh_cs() {
  Constraint_System cs;
  cs.insert(A >= 0); cs.insert(B >= K(1)); cs.insert(A - B <= K(3)); cs.insert(B - C <= K(2)); cs.insert(C <= K(7)); cs.insert(C - A >= -K(4));
  if (ShapeKind<SH>::oct) { cs.insert(A + B <= K(9)); cs.insert(A + C >= K(1)); }
  return cs;
}
template <typename SH> static SH sh_state(int st) {
  if (st == ST_GENS) {
    Generator_System gs; gs.insert(point(A + K(2) * B)); gs.insert(point(K(3) * A + B + K(5) * C, 2)); gs.insert(point(C)); gs.insert(ray(A + B));
    return SH(gs);
  }
  SH x(sh_cs<SH>());
  if (st == ST_CLOSED) (void) x.minimized_constraints();
  return x;
}
template <typename SH> static SH sh_other(int st) {
  Constraint_System cs;
  cs.insert(A >= K(1)); cs.insert(A <= K(5)); cs.insert(B - A <= K(2)); cs.insert(C - B <= K(1)); cs.insert(C >= 0);
  if (ShapeKind<SH>::oct) cs.insert(B + C <= K(8));
  SH y(cs);
  if (st == ST_CLOSED) (void) y.is_empty();
  return y;
}

#define SCN_SH(name, site) \
  template <typename SH, int ST> static void C14_CAT(scn_t_, __LINE__)(Run& r); \
  static Reg C14_CAT(reg_a_, __LINE__)("BD_Shape::" name "/cons", "BD_Shape::" site, 0, &C14_CAT(scn_t_, __LINE__)<BDS, ST_CONS>); \
  static Reg C14_CAT(reg_b_, __LINE__)("BD_Shape::" name "/closed", "BD_Shape::" site, 1, &C14_CAT(scn_t_, __LINE__)<BDS, ST_CLOSED>); \
  static Reg C14_CAT(reg_c_, __LINE__)("BD_Shape::" name "/gens", "BD_Shape::" site, 1, &C14_CAT(scn_t_, __LINE__)<BDS, ST_GENS>); \
  static Reg C14_CAT(reg_d_, __LINE__)("Octagonal_Shape::" name "/cons", "Octagonal_Shape::" site, 0, &C14_CAT(scn_t_, __LINE__)<OCT, ST_CONS>); \
  static Reg C14_CAT(reg_e_, __LINE__)("Octagonal_Shape::" name "/closed", "Octagonal_Shape::" site, 1, &C14_CAT(scn_t_, __LINE__)<OCT, ST_CLOSED>); \
  static Reg C14_CAT(reg_f_, __LINE__)("Octagonal_Shape::" name "/gens", "Octagonal_Shape::" site, 1, &C14_CAT(scn_t_, __LINE__)<OCT, ST_GENS>); \
  template <typename SH, int ST> static void C14_CAT(scn_t_, __LINE__)(Run& r)
#define SH_X  SH x = sh_state<SH>(ST); SH xf(x)
#define SH_XY SH x = sh_state<SH>(ST); SH xf(x); SH y = sh_other<SH>(ST); SH yf(y)

SCN_SH("add_constraints+closure", "add_constraints") {
  SH_X;
  Constraint_System cs; cs.insert(A - C <= K(1)); cs.insert(B <= K(6)); cs.insert(C - B >= -K(5));
  faulted(r, [&] { x.add_constraints(cs); (void) x.is_empty(); (void) x.minimized_constraints(); });
  usable(r, x, xf, "x");
}
SCN_SH("closure(build from constraints)", "minimized_constraints") {
  SH fresh(3);
  SH x(3);
  faulted(r, [&] { SH z(sh_cs<SH>()); (void) z.is_empty(); (void) z.minimized_constraints(); (void) z.minimized_congruences(); x = z; });
  usable(r, x, fresh, "x");
}
SCN_SH("upper_bound_assign", "upper_bound_assign") {
  SH_XY;
  faulted(r, [&] { x.upper_bound_assign(y); (void) x.minimized_constraints(); });
  usable(r, x, xf, "x"); usable(r, y, yf, "y");
}
SCN_SH("upper_bound_assign_if_exact", "upper_bound_assign_if_exact") {
  SH_XY;
  faulted(r, [&] { (void) x.upper_bound_assign_if_exact(y); });
  usable(r, x, xf, "x"); usable(r, y, yf, "y");
}
SCN_SH("intersection_assign", "intersection_assign") {
  SH_XY;
  faulted(r, [&] { x.intersection_assign(y); (void) x.is_empty(); });
  usable(r, x, xf, "x"); usable(r, y, yf, "y");
}
SCN_SH("difference_assign", "difference_assign") {
  SH_XY;
  faulted(r, [&] { x.difference_assign(y); (void) x.is_empty(); });
  usable(r, x, xf, "x"); usable(r, y, yf, "y");
}
SCN_SH("affine_image", "affine_image") {
  SH_X;
  faulted(r, [&] { x.affine_image(A, K(2) * A + B - K(3), 2); x.affine_image(B, C + K(1)); (void) x.minimized_constraints(); });
  usable(r, x, xf, "x");
}
SCN_SH("affine_preimage", "affine_preimage") {
  SH_X;
  faulted(r, [&] { x.affine_preimage(A, K(3) * A - K(3), 2); x.affine_preimage(B, A + C); (void) x.minimized_constraints(); });
  usable(r, x, xf, "x");
}
SCN_SH("generalized_affine_image", "generalized_affine_image") {
  SH_X;
  faulted(r, [&] { x.generalized_affine_image(B, LESS_OR_EQUAL, A + K(1), 2); x.generalized_affine_image(A - B, GREATER_OR_EQUAL, C + K(1)); x.generalized_affine_preimage(C, EQUAL, C - K(2)); (void) x.is_empty(); });
  usable(r, x, xf, "x");
}
SCN_SH("bounded_affine_image", "bounded_affine_image") {
  SH_X;
  faulted(r, [&] { x.bounded_affine_image(A, B - K(1), C + K(3)); x.bounded_affine_preimage(C, A, A + K(1)); (void) x.is_empty(); });
  usable(r, x, xf, "x");
}
SCN_SH("widenings", "CC76_extrapolation_assign") {
  SH_XY;
  Constraint_System cs; cs.insert(A <= K(50)); cs.insert(A - B <= K(70));
  faulted(r, [&] { SH z(x); z.upper_bound_assign(y); SH w(z), v(z), u(z); unsigned tokens = 1; z.CC76_extrapolation_assign(x, &tokens); w.BHMZ05_widening_assign(x); v.limited_CC76_extrapolation_assign(x, cs); u.limited_BHMZ05_extrapolation_assign(x, cs);
                   SH n(x); n.CC76_narrowing_assign(z); });
  usable(r, x, xf, "x"); usable(r, y, yf, "y");
}
SCN_SH("copy+assign+swap", "operator=") {
  SH_XY;
  faulted(r, [&] { SH z(x); y = z; z.m_swap(x); (void) y.minimized_constraints(); });
  usable(r, x, xf, "x"); usable(r, y, yf, "y");
}
SCN_SH("space dimensions", "add_space_dimensions_and_embed") {
  SH_XY;
  Variables_Set vs; vs.insert(B);
  Variables_Set fs; fs.insert(A);
  Partial_Function pf; pf.insert(0, 2); pf.insert(2, 0); pf.insert(1, 1);
  faulted(r, [&] { x.add_space_dimensions_and_embed(2); x.add_space_dimensions_and_project(1); x.remove_space_dimensions(vs); x.remove_higher_space_dimensions(3);
                   x.map_space_dimensions(pf); x.expand_space_dimension(B, 2); x.fold_space_dimensions(fs, C); x.concatenate_assign(y); (void) x.minimized_constraints(); });
  usable(r, x, xf, "x"); usable(r, y, yf, "y");
}
SCN_SH("time_elapse_assign", "time_elapse_assign") {
  SH_XY;
  faulted(r, [&] { x.time_elapse_assign(y); (void) x.is_empty(); });
  usable(r, x, xf, "x"); usable(r, y, yf, "y");
}
SCN_SH("relation_with+queries", "relation_with") {
  SH_XY;
  faulted(r, [&] { (void) x.relation_with(A - B >= K(2)); (void) x.relation_with(A + K(2) * B + C <= K(30)); (void) x.relation_with(point(A + B + C)); (void) x.relation_with((A %= K(1)) / 2);
                   Coefficient n, d; bool mx; Generator g(point()); (void) x.maximize(A + B - C, n, d, mx, g); (void) x.minimize(A - B, n, d, mx); (void) x.bounds_from_above(A + C);
                   Coefficient fn, fd, vn, vd; (void) x.frequency(A - B, fn, fd, vn, vd);
                   (void) x.contains(y); (void) x.strictly_contains(y); (void) x.is_disjoint_from(y); (void) (x == y); (void) x.is_bounded(); (void) x.is_universe(); (void) x.contains_integer_point();
                   (void) x.affine_dimension(); (void) x.constrains(B); (void) x.hash_code(); (void) x.is_discrete(); });
  usable(r, x, xf, "x"); usable(r, y, yf, "y");
}
SCN_SH("construct from C_Polyhedron|Box|Grid|other shape", "BD_Shape") {
  SH_X;
  C_Polyhedron ph(3); ph.add_constraint(A + B <= K(4)); ph.add_constraint(A - C >= 0); ph.add_constraint(B >= 0); ph.add_constraint(C >= -K(1)); ph.add_constraint(A <= K(9));
  Rational_Box box(ph); Grid gr(3); gr.add_constraint(A - B == K(1)); gr.add_congruence((C %= 0) / 2);
  BDS bd(ph); OCT oc(ph);
  faulted(r, [&] { SH s1(ph); SH s2(ph, SIMPLEX_COMPLEXITY); SH s3(box); SH s4(gr); SH s5(bd); SH s6(oc); (void) s2.minimized_constraints(); C_Polyhedron back(x); Rational_Box bb(x); });
  usable(r, x, xf, "x");
}
SCN_SH("refine+unconstrain+wrap+simplify", "refine_with_constraints") {
  SH_XY;
  Constraint_System cs; cs.insert(A + K(2) * B - C <= K(6)); cs.insert(A - B < K(2)); cs.insert(C == K(3));
  Variables_Set vs; vs.insert(A); vs.insert(B);
  faulted(r, [&] { SH z(x); z.refine_with_constraints(cs); z.refine_with_congruence((A - B %= 0) / 0); z.unconstrain(C); z.unconstrain(vs);
                   SH w(x); w.add_constraint(B <= K(300)); w.wrap_assign(vs, BITS_8, UNSIGNED, OVERFLOW_WRAPS, 0, 4, false);
                   if (!ShapeKind<SH>::oct) (void) x.simplify_using_context_assign(y);   // octagons: reaches PPL_UNREACHABLE without any fault on this input (not C14)
                   x.drop_some_non_integer_points(); x.topological_closure_assign();
                   std::stringstream ss; x.ascii_dump(ss); SH l(3); (void) l.ascii_load(ss); });
  usable(r, x, xf, "x"); usable(r, y, yf, "y");
}

// ---- rational boxes -------------------------------------------------------------------------
static Rational_Box bx_state(int st) {
  Rational_Box x(3);
  if (st == ST_GENS) {
    Generator_System gs; gs.insert(point(A + K(2) * B)); gs.insert(point(K(3) * A + B + K(5) * C, 2)); gs.insert(point(C)); gs.insert(ray(A));
    return Rational_Box(gs);
  }
  x.add_constraint(A >= 0); x.add_constraint(K(3) * A <= K(10)); x.add_constraint(B > K(1)); x.add_constraint(C <= K(7)); x.add_constraint(K(2) * C >= -K(5));
  if (st == ST_CLOSED) (void) x.is_empty();
  return x;
}
static Rational_Box bx_other(int) {
  Rational_Box y(3);
  y.add_constraint(A >= K(1)); y.add_constraint(A < K(5)); y.add_constraint(K(2) * B <= K(9)); y.add_constraint(C >= 0); y.add_constraint(C <= K(12));
  return y;
}
#define SCN_BX(name, site) \
  template <int ST> static void C14_CAT(scn_t_, __LINE__)(Run& r); \
  static Reg C14_CAT(reg_a_, __LINE__)("Rational_Box::" name "/cons", "Box::" site, 0, &C14_CAT(scn_t_, __LINE__)<ST_CONS>); \
  static Reg C14_CAT(reg_c_, __LINE__)("Rational_Box::" name "/gens", "Box::" site, 1, &C14_CAT(scn_t_, __LINE__)<ST_GENS>); \
  template <int ST> static void C14_CAT(scn_t_, __LINE__)(Run& r)
#define BX_X  Rational_Box x = bx_state(ST); Rational_Box xf(x)
#define BX_XY Rational_Box x = bx_state(ST); Rational_Box xf(x); Rational_Box y = bx_other(ST); Rational_Box yf(y)

SCN_BX("add_constraints", "add_constraints") {
  BX_X;
  Constraint_System cs; cs.insert(A <= K(3)); cs.insert(K(5) * B >= K(7)); cs.insert(C == K(2));
  faulted(r, [&] { x.add_constraints(cs); (void) x.is_empty(); (void) x.minimized_constraints(); });
  usable(r, x, xf, "x");
}
SCN_BX("refine_with_constraints+propagate", "refine_with_constraints") {
  BX_X;
  Constraint_System cs; cs.insert(A + B <= K(6)); cs.insert(A - K(2) * C >= -K(9)); cs.insert(B + C < K(8));
  faulted(r, [&] { x.refine_with_constraints(cs); x.propagate_constraints(cs, 5); (void) x.is_empty(); });
  usable(r, x, xf, "x");
}
SCN_BX("upper_bound+intersection+difference", "upper_bound_assign") {
  BX_XY;
  faulted(r, [&] { Rational_Box z(x), w(x); x.upper_bound_assign(y); z.intersection_assign(y); w.difference_assign(y); (void) x.upper_bound_assign_if_exact(y); (void) z.is_empty(); });
  usable(r, x, xf, "x"); usable(r, y, yf, "y");
}
SCN_BX("affine_image+preimage", "affine_image") {
  BX_X;
  faulted(r, [&] { x.affine_image(A, K(2) * A + B - K(3), 2); x.affine_preimage(B, K(3) * B + K(1), 2); x.generalized_affine_image(C, LESS_OR_EQUAL, A + K(1), 3); x.generalized_affine_image(A + B, GREATER_OR_EQUAL, C);
                   x.bounded_affine_image(B, A, A + C); (void) x.is_empty(); });
  usable(r, x, xf, "x");
}
SCN_BX("widening", "CC76_widening_assign") {
  BX_XY;
  Constraint_System cs; cs.insert(A <= K(50)); cs.insert(C >= -K(70));
  faulted(r, [&] { Rational_Box z(x); z.upper_bound_assign(y); Rational_Box w(z); unsigned tokens = 1; z.CC76_widening_assign(x, &tokens); w.limited_CC76_extrapolation_assign(x, cs); Rational_Box n(x); n.CC76_narrowing_assign(z); });
  usable(r, x, xf, "x"); usable(r, y, yf, "y");
}
SCN_BX("copy+assign+space dimensions", "operator=") {
  BX_XY;
  Variables_Set vs; vs.insert(B);
  Variables_Set fs; fs.insert(A);
  Partial_Function pf; pf.insert(0, 2); pf.insert(2, 0); pf.insert(1, 1);
  faulted(r, [&] { Rational_Box z(x); y = z; z.m_swap(x); x.add_space_dimensions_and_embed(2); x.add_space_dimensions_and_project(1); x.remove_space_dimensions(vs); x.remove_higher_space_dimensions(3);
                   x.map_space_dimensions(pf); x.expand_space_dimension(B, 2); x.fold_space_dimensions(fs, C); x.concatenate_assign(y); });
  usable(r, x, xf, "x"); usable(r, y, yf, "y");
}
SCN_BX("construct from C_Polyhedron|BD_Shape|Grid", "Box") {
  BX_X;
  C_Polyhedron ph(3); ph.add_constraint(A + B <= K(4)); ph.add_constraint(A - C >= 0); ph.add_constraint(B >= 0); ph.add_constraint(C >= -K(1)); ph.add_constraint(A <= K(9));
  BDS bd(ph); OCT oc(ph); Grid gr(3); gr.add_constraint(K(2) * A == K(1)); gr.add_congruence((C %= 0) / 2);
  faulted(r, [&] { Rational_Box b1(ph); Rational_Box b2(ph, SIMPLEX_COMPLEXITY); Rational_Box b3(bd); Rational_Box b4(oc); Rational_Box b5(gr); C_Polyhedron back(x); (void) back.minimized_generators(); });
  usable(r, x, xf, "x");
}
SCN_BX("relation_with+queries", "relation_with") {
  BX_XY;
  Variables_Set vs; vs.insert(A);
  faulted(r, [&] { (void) x.relation_with(A - B >= K(2)); (void) x.relation_with(point(A + K(2) * B + C)); (void) x.relation_with((A %= K(1)) / 2);
                   Coefficient n, d; bool mx; Generator g(point()); (void) x.maximize(A + B - C, n, d, mx, g); (void) x.minimize(A - B, n, d, mx);
                   Coefficient fn, fd, vn, vd; (void) x.frequency(A, fn, fd, vn, vd);
                   (void) x.contains(y); (void) x.is_disjoint_from(y); (void) (x == y); (void) x.is_bounded(); (void) x.contains_integer_point(); (void) x.affine_dimension(); (void) x.constrains(B);
                   Rational_Box z(x); z.unconstrain(B); z.time_elapse_assign(y); z.wrap_assign(vs, BITS_8, UNSIGNED, OVERFLOW_WRAPS, 0, 4, false); (void) x.simplify_using_context_assign(y);
                   x.drop_some_non_integer_points(); x.topological_closure_assign(); std::stringstream ss; x.ascii_dump(ss); Rational_Box l(3); (void) l.ascii_load(ss); });
  usable(r, x, xf, "x"); usable(r, y, yf, "y");
}

// ---- powersets of C polyhedra ---------------------------------------------------------------
static C_Polyhedron ps_box(long x0, long x1, long y0, long y1) {
  C_Polyhedron p(2);
  p.add_constraint(A >= K(x0)); p.add_constraint(A <= K(x1)); p.add_constraint(B >= K(y0)); p.add_constraint(B <= K(y1));
  return p;
}
static PS ps_state(int st) {
  PS x(2, EMPTY);
  x.add_disjunct(ps_box(0, 2, 0, 2)); x.add_disjunct(ps_box(2, 4, 0, 2)); x.add_disjunct(ps_box(1, 3, 1, 5));
  if (st != ST_CONS) { C_Polyhedron t(2); t.add_constraint(A >= K(6)); t.add_constraint(B >= A); t.add_constraint(A + B <= K(20)); (void) t.minimized_generators(); x.add_disjunct(t); x.omega_reduce(); }
  return x;
}
static PS ps_other(int) {
  PS y(2, EMPTY);
  y.add_disjunct(ps_box(1, 3, 1, 3)); y.add_disjunct(ps_box(3, 7, 0, 1));
  return y;
}
#define SCN_PS(name, site) \
  template <int ST> static void C14_CAT(scn_t_, __LINE__)(Run& r); \
  static Reg C14_CAT(reg_a_, __LINE__)("Pointset_Powerset::" name "/3boxes", "Pointset_Powerset::" site, 0, &C14_CAT(scn_t_, __LINE__)<ST_CONS>); \
  static Reg C14_CAT(reg_c_, __LINE__)("Pointset_Powerset::" name "/4mixed", "Pointset_Powerset::" site, 1, &C14_CAT(scn_t_, __LINE__)<ST_CLOSED>); \
  template <int ST> static void C14_CAT(scn_t_, __LINE__)(Run& r)
#define PS_X  PS x = ps_state(ST); PS xf(x)
#define PS_XY PS x = ps_state(ST); PS xf(x); PS y = ps_other(ST); PS yf(y)

SCN_PS("add_disjunct+omega_reduce", "add_disjunct") {
  PS_X;
  C_Polyhedron p = ps_box(0, 4, 0, 2), q = ps_box(9, 10, 9, 10);
  faulted(r, [&] { x.add_disjunct(p); x.add_disjunct(q); x.omega_reduce(); (void) x.size(); });
  usable(r, x, xf, "x");
}
SCN_PS("difference_assign", "difference_assign") {
  PS_XY;
  faulted(r, [&] { x.difference_assign(y); (void) x.size(); });
  usable(r, x, xf, "x"); usable(r, y, yf, "y");
}
SCN_PS("pairwise_reduce", "pairwise_reduce") {
  PS_X;
  faulted(r, [&] { x.pairwise_reduce(); (void) x.size(); });
  usable(r, x, xf, "x");
}
SCN_PS("difference_assign+pairwise_reduce", "difference_assign") {
  PS_XY;
  faulted(r, [&] { x.difference_assign(y); x.pairwise_reduce(); (void) x.size(); });
  usable(r, x, xf, "x"); usable(r, y, yf, "y");
}
SCN_PS("intersection_assign", "intersection_assign") {
  PS_XY;
  faulted(r, [&] { x.intersection_assign(y); (void) x.is_empty(); });
  usable(r, x, xf, "x"); usable(r, y, yf, "y");
}
SCN_PS("upper_bound_assign+least_upper_bound", "upper_bound_assign") {
  PS_XY;
  faulted(r, [&] { x.upper_bound_assign(y); x.omega_reduce(); PS z(x); z.time_elapse_assign(y); });
  usable(r, x, xf, "x"); usable(r, y, yf, "y");
}
SCN_PS("copy+assign+swap", "operator=") {
  PS_XY;
  faulted(r, [&] { PS z(x); y = z; z.m_swap(x); (void) y.size(); });
  usable(r, x, xf, "x"); usable(r, y, yf, "y");
}
SCN_PS("affine_image+add_constraint", "affine_image") {
  PS_X;
  faulted(r, [&] { x.affine_image(A, A + B + K(1)); x.add_constraint(A <= K(5)); x.affine_preimage(B, K(2) * B, 3); x.generalized_affine_image(A, LESS_OR_EQUAL, B); (void) x.is_empty(); });
  usable(r, x, xf, "x");
}
SCN_PS("geometrically_covers+contains", "geometrically_covers") {
  PS_XY;
  faulted(r, [&] { (void) x.geometrically_covers(y); (void) x.geometrically_equals(y); (void) x.contains(y); (void) x.strictly_contains(y); (void) x.is_disjoint_from(y); (void) x.definitely_entails(y); (void) (x == y);
                   (void) x.relation_with(A >= K(1)); (void) x.relation_with(point(A + B)); Coefficient n, d; bool mx; (void) x.maximize(A + B, n, d, mx); (void) x.is_bounded(); (void) x.affine_dimension(); });
  usable(r, x, xf, "x"); usable(r, y, yf, "y");
}
SCN_PS("BHZ03_widening_assign", "BHZ03_widening_assign") {
  PS_XY;
  faulted(r, [&] { PS z(x); z.upper_bound_assign(y); z.BHZ03_widening_assign<BHRZ03_Certificate>(x, widen_fun_ref(&Polyhedron::H79_widening_assign)); (void) z.size(); });
  usable(r, x, xf, "x"); usable(r, y, yf, "y");
}
SCN_PS("BGP99_extrapolation_assign", "BGP99_extrapolation_assign") {
  PS_XY;
  faulted(r, [&] { PS z(x); z.upper_bound_assign(y); z.BGP99_extrapolation_assign(x, widen_fun_ref(&Polyhedron::H79_widening_assign), 2); (void) z.size(); });
  usable(r, x, xf, "x"); usable(r, y, yf, "y");
}
SCN_PS("space dimensions", "add_space_dimensions_and_embed") {
  PS_XY;
  Variables_Set vs; vs.insert(B);
  Variables_Set fs; fs.insert(A);
  Partial_Function pf; pf.insert(0, 1); pf.insert(1, 0);
  faulted(r, [&] { x.add_space_dimensions_and_embed(1); x.add_space_dimensions_and_project(1); x.remove_space_dimensions(vs); x.remove_higher_space_dimensions(2);
                   x.map_space_dimensions(pf); x.expand_space_dimension(B, 1); x.fold_space_dimensions(fs, B); x.concatenate_assign(y); (void) x.size(); });
  usable(r, x, xf, "x"); usable(r, y, yf, "y");
}
SCN_PS("simplify_using_context+unconstrain+refine", "simplify_using_context_assign") {
  PS_XY;
  faulted(r, [&] { PS z(x); (void) z.simplify_using_context_assign(y); x.unconstrain(A); x.refine_with_constraint(A + B <= K(4)); x.topological_closure_assign(); x.drop_some_non_integer_points();
                   std::stringstream ss; x.ascii_dump(ss); PS l(2); (void) l.ascii_load(ss); });
  usable(r, x, xf, "x"); usable(r, y, yf, "y");
}
SCN_PS("construct from C_Polyhedron|Box|BD_Shape|Grid|powerset", "Pointset_Powerset") {
  PS_X;
  C_Polyhedron ph = ps_box(0, 3, 1, 2); Rational_Box box(ph); BDS bd(ph); Grid gr(2); gr.add_congruence((A + B %= 0) / 2);
  faulted(r, [&] { PS p1(ph); PS p2(box); PS p3(bd); PS p4(gr); Pointset_Powerset<NNC_Polyhedron> n(x); PS back(n); Pointset_Powerset<BDS> pb(x); (void) pb.size(); });
  usable(r, x, xf, "x");
}

} // namespace c14

// C11 part 2: "bounded builds never lie".  The same source is compiled against the mpz build (variant prod) and
// against the checked-int8/int16/... coefficient builds.  Every history of depth <= D over a fixed menu of
// C_Polyhedron operations (dimension 2, coefficients close to the 8- and 16-bit limits) is executed; after it a
// fixed list of observers prints canonical answers.
//   --mode emit    --ans FILE          : write "<history>\t<observer>\t<answer>" lines (bounded builds)
//   --mode compare --ans F1,F2 --labels i8,i16 : recompute with this build (mpz) and compare
// Oracle: for every history either the bounded build threw std::overflow_error (its objects must then still be
// destructible and OK()), or every answer is identical to the mpz build's.
#include "ppl-config.h"
#include "version.hh"
#include "ppl_include_files.hh"
#include "engine/common.hh"
#include <unordered_map>
#include <algorithm>
#include <fcntl.h>
#include <setjmp.h>
#include <sys/stat.h>

namespace PPL = Parma_Polyhedra_Library;
using namespace PPL;
using vf::J;

static vf::Args ARGS;

// ---- menu
struct Op { std::string name; std::function<void(C_Polyhedron&)> f; };
static std::vector<Op> MENU;

static Linear_Expression le(long a, long b, long c) {
  Linear_Expression e;
  e += Coefficient(a) * Variable(0);
  e += Coefficient(b) * Variable(1);
  e += Coefficient(c);
  return e;
}
static void add_con(const std::string& n, long a, long b, long c, int k) {   // a*A + b*B + c  (k: 0 '==', 1 '>=') 0
  Op o; o.name = n;
  o.f = [a, b, c, k](C_Polyhedron& p) { if (k == 0) p.add_constraint(le(a, b, c) == 0); else p.add_constraint(le(a, b, c) >= 0); };
  MENU.push_back(o);
}
static void add_gen(const std::string& n, char t, long a, long b, long d) {
  Op o; o.name = n;
  o.f = [t, a, b, d](C_Polyhedron& p) {
    Linear_Expression e = le(a, b, 0);
    if (t == 'p') p.add_generator(Generator::point(e, Coefficient(d)));
    else if (t == 'r') p.add_generator(Generator::ray(e));
    else p.add_generator(Generator::line(e));
  };
  MENU.push_back(o);
}
static C_Polyhedron box(long a0, long a1, long b0, long b1) {
  C_Polyhedron q(2);
  q.add_constraint(le(1, 0, -a0) >= 0); q.add_constraint(le(-1, 0, a1) >= 0);
  q.add_constraint(le(0, 1, -b0) >= 0); q.add_constraint(le(0, -1, b1) >= 0);
  return q;
}
static void build_menu() {
  add_con("A>=0", 1, 0, 0, 1); add_con("B>=0", 0, 1, 0, 1); add_con("A<=5", -1, 0, 5, 1); add_con("A+B<=11", -1, -1, 11, 1);
  add_con("3A-5B>=-2", 3, -5, 2, 1); add_con("11A+5B<=60", -11, -5, 60, 1); add_con("A-B==1", 1, -1, -1, 0);
  add_con("2A+3B>=1", 2, 3, -1, 1); add_con("60A-11B<=100", -60, 11, 100, 1); add_con("100A+B>=-100", 100, 1, 100, 1);
  add_con("5A+11B<=100", -5, -11, 100, 1); add_con("7A==3", 7, 0, -3, 0); add_con("181A+179B<=30000", -181, -179, 30000, 1);
  add_gen("point(0,0)", 'p', 0, 0, 1); add_gen("point(5,11)/2", 'p', 5, 11, 2); add_gen("point(60,-100)/11", 'p', 60, -100, 11);
  add_gen("point(100,100)", 'p', 100, 100, 1); add_gen("ray(1,2)", 'r', 1, 2, 1); add_gen("ray(-3,5)", 'r', -3, 5, 1);
  add_gen("line(1,-1)", 'l', 1, -1, 1); add_gen("point(3,-2)/5", 'p', 3, -2, 5); add_gen("point(30000,-30000)", 'p', 30000, -30000, 1);
  { Op o; o.name = "A:=2A+3B-1"; o.f = [](C_Polyhedron& p) { p.affine_image(Variable(0), le(2, 3, -1)); }; MENU.push_back(o); }
  { Op o; o.name = "B:=(5A-11B+3)/2"; o.f = [](C_Polyhedron& p) { p.affine_image(Variable(1), le(5, -11, 3), Coefficient(2)); }; MENU.push_back(o); }
  { Op o; o.name = "A:=(11A+5)/3"; o.f = [](C_Polyhedron& p) { p.affine_image(Variable(0), le(11, 0, 5), Coefficient(3)); }; MENU.push_back(o); }
  { Op o; o.name = "A:=B"; o.f = [](C_Polyhedron& p) { p.affine_image(Variable(0), le(0, 1, 0)); }; MENU.push_back(o); }
  { Op o; o.name = "pre A:=A+B"; o.f = [](C_Polyhedron& p) { p.affine_preimage(Variable(0), le(1, 1, 0)); }; MENU.push_back(o); }
  { Op o; o.name = "pre B:=(3B-A)/5"; o.f = [](C_Polyhedron& p) { p.affine_preimage(Variable(1), le(-1, 3, 0), Coefficient(5)); }; MENU.push_back(o); }
  { Op o; o.name = "A:=181A+1"; o.f = [](C_Polyhedron& p) { p.affine_image(Variable(0), le(181, 0, 1)); }; MENU.push_back(o); }
  { Op o; o.name = "hull box[1,11]x[-5,5]"; o.f = [](C_Polyhedron& p) { C_Polyhedron q = box(1, 11, -5, 5); p.poly_hull_assign(q); }; MENU.push_back(o); }
  { Op o; o.name = "hull {(7,3)/2}"; o.f = [](C_Polyhedron& p) { C_Polyhedron q(2, EMPTY); q.add_generator(Generator::point(le(7, 3, 0), Coefficient(2))); p.poly_hull_assign(q); }; MENU.push_back(o); }
  { Op o; o.name = "meet {A+B>=2,A-B<=60}"; o.f = [](C_Polyhedron& p) { C_Polyhedron q(2); q.add_constraint(le(1, 1, -2) >= 0); q.add_constraint(le(-1, 1, 60) >= 0); p.intersection_assign(q); }; MENU.push_back(o); }
  { Op o; o.name = "time_elapse box[1,2]x[0,3]"; o.f = [](C_Polyhedron& p) { C_Polyhedron q = box(1, 2, 0, 3); p.time_elapse_assign(q); }; MENU.push_back(o); }
  { Op o; o.name = "unconstrain(A)"; o.f = [](C_Polyhedron& p) { p.unconstrain(Variable(0)); }; MENU.push_back(o); }
  { Op o; o.name = "minimize_cs"; o.f = [](C_Polyhedron& p) { (void)p.minimized_constraints(); }; MENU.push_back(o); }
  { Op o; o.name = "minimize_gs"; o.f = [](C_Polyhedron& p) { (void)p.minimized_generators(); }; MENU.push_back(o); }
}

// ---- canonical printing (never depends on the coefficient type: decimal text of each coefficient)
static std::string cs(const Coefficient& c) { std::ostringstream s; s << c; return s.str(); }
static std::string con_str(const Constraint& c) {
  return cs(c.coefficient(Variable(0))) + "," + cs(c.coefficient(Variable(1))) + "," + cs(c.inhomogeneous_term()) + (c.is_equality() ? "=" : ">=");
}
static std::string gen_str(const Generator& g) {
  std::string t = g.is_point() ? "p" : g.is_ray() ? "r" : g.is_line() ? "l" : "c";
  std::string s = t + cs(g.coefficient(Variable(0))) + "," + cs(g.coefficient(Variable(1)));
  if (g.is_point()) s += "/" + cs(g.divisor());
  return s;
}
static std::string join_sorted(std::vector<std::string>& v) { std::sort(v.begin(), v.end()); std::string o; for (size_t i = 0; i < v.size(); ++i) { if (i) o += ";"; o += v[i]; } return o; }

struct Obs { std::string name; std::function<std::string(C_Polyhedron&)> f; };
static std::vector<Obs> OBS;
static std::string opt_str(C_Polyhedron& p, long a, long b, long c, bool maxi) {
  Coefficient n, d; bool att;
  bool r = maxi ? p.maximize(le(a, b, c), n, d, att) : p.minimize(le(a, b, c), n, d, att);
  if (!r) return "none";
  return cs(n) + "/" + cs(d) + (att ? " attained" : " not-attained");
}
static std::string rel_str(const Poly_Con_Relation& r) {
  std::string s;
  if (r.implies(Poly_Con_Relation::is_disjoint())) s += "D";
  if (r.implies(Poly_Con_Relation::strictly_intersects())) s += "S";
  if (r.implies(Poly_Con_Relation::is_included())) s += "I";
  if (r.implies(Poly_Con_Relation::saturates())) s += "T";
  return s.empty() ? "-" : s;
}
static void build_observers() {
  { Obs o; o.name = "is_empty"; o.f = [](C_Polyhedron& p) { return std::string(p.is_empty() ? "1" : "0"); }; OBS.push_back(o); }
  { Obs o; o.name = "minimized_constraints"; o.f = [](C_Polyhedron& p) {
      const Constraint_System& s = p.minimized_constraints(); std::vector<std::string> v;
      for (Constraint_System::const_iterator i = s.begin(); i != s.end(); ++i) v.push_back(con_str(*i));
      return join_sorted(v); }; OBS.push_back(o); }
  { Obs o; o.name = "minimized_generators"; o.f = [](C_Polyhedron& p) {
      const Generator_System& s = p.minimized_generators(); std::vector<std::string> v;
      for (Generator_System::const_iterator i = s.begin(); i != s.end(); ++i) v.push_back(gen_str(*i));
      return join_sorted(v); }; OBS.push_back(o); }
  { Obs o; o.name = "maximize(A+2B)"; o.f = [](C_Polyhedron& p) { return opt_str(p, 1, 2, 0, true); }; OBS.push_back(o); }
  { Obs o; o.name = "minimize(3A-B+1)"; o.f = [](C_Polyhedron& p) { return opt_str(p, 3, -1, 1, false); }; OBS.push_back(o); }
  { Obs o; o.name = "maximize(11A-60B)"; o.f = [](C_Polyhedron& p) { return opt_str(p, 11, -60, 0, true); }; OBS.push_back(o); }
  { Obs o; o.name = "relation_with(A-B>=0)"; o.f = [](C_Polyhedron& p) { return rel_str(p.relation_with(le(1, -1, 0) >= 0)); }; OBS.push_back(o); }
  { Obs o; o.name = "relation_with(5A+11B==100)"; o.f = [](C_Polyhedron& p) { return rel_str(p.relation_with(le(5, 11, -100) == 0)); }; OBS.push_back(o); }
  { Obs o; o.name = "is_bounded"; o.f = [](C_Polyhedron& p) { return std::string(p.is_bounded() ? "1" : "0"); }; OBS.push_back(o); }
  { Obs o; o.name = "affine_dimension"; o.f = [](C_Polyhedron& p) { return std::to_string(p.affine_dimension()); }; OBS.push_back(o); }
  // (contains_integer_point is not used: its branch-and-bound needs gigabytes / minutes on some depth-4 histories in every build)
  { Obs o; o.name = "constrains(B)"; o.f = [](C_Polyhedron& p) { return std::string(p.constrains(Variable(1)) ? "1" : "0"); }; OBS.push_back(o); }
  { Obs o; o.name = "bounds_from_above(2A-3B)"; o.f = [](C_Polyhedron& p) { return std::string(p.bounds_from_above(le(2, -3, 0)) ? "1" : "0"); }; OBS.push_back(o); }
  // the simplex solver on the same constraints (continuous relaxation only: no branch and bound)
  { Obs o; o.name = "MIP_Problem::solve(max A+2B)"; o.f = [](C_Polyhedron& p) {
      MIP_Problem mip(2, p.constraints(), le(1, 2, 0), MAXIMIZATION);
      MIP_Problem_Status st = mip.solve();
      if (st == UNFEASIBLE_MIP_PROBLEM) return std::string("unfeasible");
      if (st == UNBOUNDED_MIP_PROBLEM) return std::string("unbounded");
      Coefficient n, d; mip.optimal_value(n, d); return cs(n) + "/" + cs(d); }; OBS.push_back(o); }
  { Obs o; o.name = "MIP_Problem::solve(min 11A-5B+3)"; o.f = [](C_Polyhedron& p) {
      MIP_Problem mip(2, p.constraints(), le(11, -5, 3), MINIMIZATION);
      MIP_Problem_Status st = mip.solve();
      if (st == UNFEASIBLE_MIP_PROBLEM) return std::string("unfeasible");
      if (st == UNBOUNDED_MIP_PROBLEM) return std::string("unbounded");
      Coefficient n, d; mip.optimal_value(n, d); return cs(n) + "/" + cs(d); }; OBS.push_back(o); }
  // a grid built from the equalities of the polyhedron plus two fixed congruences
  { Obs o; o.name = "Grid(equalities + 2 congruences)"; o.f = [](C_Polyhedron& p) {
      Grid g(2);
      const Constraint_System& s = p.minimized_constraints();
      for (Constraint_System::const_iterator i = s.begin(); i != s.end(); ++i) if (i->is_equality()) g.add_constraint(*i);
      g.add_congruence((le(3, 5, 1) %= 0) / 7); g.add_congruence((le(1, -1, 0) %= 0) / 2);
      if (g.is_empty()) return std::string("empty");
      const Congruence_System& c = g.minimized_congruences(); std::vector<std::string> v;
      for (Congruence_System::const_iterator i = c.begin(); i != c.end(); ++i)
        v.push_back(cs(i->coefficient(Variable(0))) + "," + cs(i->coefficient(Variable(1))) + "," + cs(i->inhomogeneous_term()) + "%" + cs(i->modulus()));
      std::string r = join_sorted(v);
      const Grid_Generator_System& gg = g.minimized_grid_generators(); std::vector<std::string> w;
      for (Grid_Generator_System::const_iterator i = gg.begin(); i != gg.end(); ++i)
        w.push_back(std::string(i->is_point() ? "p" : i->is_parameter() ? "q" : "l") + cs(i->coefficient(Variable(0))) + "," + cs(i->coefficient(Variable(1))) + (i->is_line() ? std::string() : "/" + cs(i->divisor())));
      return r + " | " + join_sorted(w); }; OBS.push_back(o); }
  { Obs o; o.name = "contains(box[1,2]x[0,1])"; o.f = [](C_Polyhedron& p) { C_Polyhedron q = box(1, 2, 0, 1); return std::string(p.contains(q) ? "1" : "0"); }; OBS.push_back(o); }
}

// ---- executing one step / one observer, classifying exceptions
enum { CNT_HIST = vf::CNT_USER, CNT_HIST_OVF, CNT_OBS, CNT_OBS_OVF, CNT_CMP, CNT_CMP_SKIP_OVF, CNT_OTHER_EXC, CNT_NOT_OK, CNT_OK_INCONCLUSIVE };
static std::string apply(C_Polyhedron& p, int op) {   // "" or an exception tag
  try { MENU[op].f(p); vf::count(vf::CNT_TRANS); return ""; }
  catch (const std::overflow_error&) { return "OVERFLOW"; }
  catch (const std::invalid_argument&) { return "EXC:invalid_argument"; }
  catch (const std::domain_error&) { return "EXC:domain_error"; }
  catch (const std::length_error&) { return "EXC:length_error"; }
  catch (const std::logic_error&) { return "EXC:logic_error"; }
  catch (const std::exception& e) { return std::string("EXC:") + e.what(); }
}
static std::string observe(const C_Polyhedron& p, int ob) {
  try { C_Polyhedron q(p); vf::count(vf::CNT_TRANS); return OBS[ob].f(q); }
  catch (const std::overflow_error&) { return "OVERFLOW"; }
  catch (const std::invalid_argument&) { return "EXC:invalid_argument"; }
  catch (const std::domain_error&) { return "EXC:domain_error"; }
  catch (const std::logic_error&) { return "EXC:logic_error"; }
  catch (const std::exception& e) { return std::string("EXC:") + e.what(); }
}

// long answers are stored as a 64-bit FNV-1a hash (both sides apply the same function)
static std::string canon(const std::string& a) {
  if (a.size() <= 24) return a;
  unsigned long long hsh = 1469598103934665603ULL;
  for (size_t i = 0; i < a.size(); ++i) { hsh ^= (unsigned char)a[i]; hsh *= 1099511628211ULL; }
  char b[32]; snprintf(b, sizeof b, "#%016llx", hsh); return b;
}
static std::string hist_id(const std::vector<int>& h) { std::string s; for (size_t i = 0; i < h.size(); ++i) { if (i) s += ","; s += std::to_string(h[i]); } return s; }
static std::string hist_json(const std::vector<int>& h) {
  std::vector<std::string> v; for (size_t i = 0; i < h.size(); ++i) v.push_back(vf::jstr(MENU[h[i]].name));
  return J().arr("history", v).str("start", "C_Polyhedron(2, UNIVERSE)").done();
}

static bool EMIT = true;
static std::string LABEL;
static std::string OUTBUF;                                             // emit: answer lines of the current item
static std::vector<std::unordered_map<std::string, std::string> > ANS;  // compare: one map per bounded build
static std::vector<std::string> LABELS;

// kind of library entry point behind a menu operation (site of a finding)
static std::string op_kind(const std::string& n) {
  if (n.compare(0, 4, "pre ") == 0) return "affine_preimage";
  if (n.find(":=") != std::string::npos) return "affine_image";
  if (n.compare(0, 5, "point") == 0 || n.compare(0, 3, "ray") == 0 || n.compare(0, 4, "line") == 0) return "add_generator";
  if (n.compare(0, 4, "hull") == 0) return "poly_hull_assign";
  if (n.compare(0, 4, "meet") == 0) return "intersection_assign";
  if (n.compare(0, 11, "time_elapse") == 0) return "time_elapse_assign";
  if (n.compare(0, 11, "unconstrain") == 0) return "unconstrain";
  if (n == "minimize_cs") return "minimized_constraints";
  if (n == "minimize_gs") return "minimized_generators";
  return "add_constraint";
}
static std::string PENDING_BEFORE = "none";   // lazy state of the receiver before the failing operation (read only)

// OK() and the destructor are run on objects that an exception may have left in any state: a crash inside them is
// a verdict on the object ("invalid object fragments"), not a reason to lose the worker
static sigjmp_buf JB; static volatile sig_atomic_t JB_ON = 0;
static void guard_handler(int sig) { if (JB_ON) { JB_ON = 0; siglongjmp(JB, sig); } signal(sig, SIG_DFL); raise(sig); }
static void install_guard() { signal(SIGSEGV, guard_handler); signal(SIGBUS, guard_handler); signal(SIGABRT, guard_handler); signal(SIGFPE, guard_handler); }

// returns false when the object must not be touched any more (OK() or the destructor crashed)
static bool check_ok_after_overflow(C_Polyhedron* p, const std::vector<int>& h) {
  bool ok = false; std::string how = "OK() returned false"; const char* clause = "overflow:object-not-OK-after-overflow_error";
  bool usable = true;
  int sig = sigsetjmp(JB, 1);
  if (sig == 0) {
    JB_ON = 1;
    // OK() computes scalar products itself: in a bounded build it may overflow on a perfectly valid object (inconclusive)
    try { ok = p->OK(); } catch (const std::overflow_error&) { ok = true; vf::count(CNT_OK_INCONCLUSIVE); }
    catch (const std::exception& e) { ok = false; how = std::string("OK() threw ") + e.what(); }
    JB_ON = 0;
  } else { ok = false; usable = false; how = std::string("OK() crashed: ") + vf::signame(sig); clause = "overflow:OK()-crashes-after-overflow_error"; install_guard(); }
  if (!ok) {
    vf::count(CNT_NOT_OK);
    // finding group: where the exception interrupted the library (a predicate over the history, evaluated here)
    std::string kind = op_kind(MENU[h.back()].name), trig = PENDING_BEFORE;
    if (trig == "none" && (kind == "affine_image" || kind == "affine_preimage")) trig = "in_place_affine_transformation_of_minimized_receiver";
    if (vf::violcap().admit(std::string(clause) + trig)) vf::report_violation("C_Polyhedron(checked-integer build)", clause, trig,
                         J().raw("history", hist_json(h)).str("failing_operation", kind).done(), how, "object still OK() after std::overflow_error", "build " + LABEL);
  }
  return usable;
}
// destroys *p; a crash in the destructor is reported (the storage is then leaked)
static void guarded_delete(C_Polyhedron* p, const std::vector<int>& h, bool after_exception) {
  if (!after_exception) { delete p; return; }
  int sig = sigsetjmp(JB, 1);
  if (sig == 0) { JB_ON = 1; delete p; JB_ON = 0; }
  else {
    install_guard();
    if (vf::violcap().admit("dtor")) vf::report_violation("C_Polyhedron(checked-integer build)", "overflow:destructor-crashes-after-overflow_error", PENDING_BEFORE,
        J().raw("history", hist_json(h)).done(), std::string("destructor crashed: ") + vf::signame(sig), "object destructible after std::overflow_error", "build " + LABEL);
  }
}

// did the bounded build b stop this history (or a prefix of it) with an exception?
static bool prefix_failure(size_t b, const std::vector<int>& h, std::string& tag) {
  std::vector<int> pre;
  for (size_t k = 0; k < h.size(); ++k) {
    pre.push_back(h[k]);
    auto it = ANS[b].find(hist_id(pre) + "\t*");
    if (it != ANS[b].end()) { tag = it->second; return true; }
  }
  return false;
}

// the record of one history: its final state has been reached without exception -> observers
static void finish_history(const C_Polyhedron& p, const std::vector<int>& h) {
  std::string id = hist_id(h);
  for (size_t ob = 0; ob < OBS.size(); ++ob) {
    std::string a = observe(p, (int)ob);
    vf::count(CNT_OBS);
    if (EMIT) {
      if (a == "OVERFLOW") vf::count(CNT_OBS_OVF);
      OUTBUF += id + "\t" + OBS[ob].name + "\t" + canon(a) + "\n";
    } else {
      for (size_t b = 0; b < ANS.size(); ++b) {
        std::string theirs;
        if (prefix_failure(b, h, theirs)) {
          vf::count(CNT_CMP);
          if (theirs == "OVERFLOW") { vf::count(CNT_CMP_SKIP_OVF); continue; }
          // the bounded build stopped this history with another exception although the mpz build completed it
          if (vf::violcap().admit("histexc" + LABELS[b])) vf::report_violation("C_Polyhedron::" + MENU[h.back()].name, "bounded:different-exception", "none",
              hist_json(h), LABELS[b] + " build: " + theirs, "mpz build: history completes", "");
          continue;
        }
        auto it = ANS[b].find(id + "\t" + OBS[ob].name);
        if (it == ANS[b].end()) {
          if (vf::violcap().admit("missing" + LABELS[b])) vf::sink().line(J().str("t", "error").str("msg", "no answer of build " + LABELS[b] + " for history " + id + " observer " + OBS[ob].name).done());
          continue;
        }
        vf::count(CNT_CMP);
        if (it->second == "OVERFLOW") { vf::count(CNT_CMP_SKIP_OVF); continue; }
        if (it->second != canon(a)) {
          std::string site = "C_Polyhedron::" + OBS[ob].name.substr(0, OBS[ob].name.find('('));
          if (vf::violcap().admit(site + LABELS[b])) vf::report_violation(site, "bounded:answer-differs-from-mpz-build", "none",
              J().raw("history", hist_json(h)).str("observer", OBS[ob].name).str("bounded_build", LABELS[b]).done(), it->second, a, "");
        }
      }
    }
  }
}
static bool failed_history(C_Polyhedron* p, const std::vector<int>& h, const std::string& tag) {
  std::string id = hist_id(h);
  bool usable = true;
  if (EMIT) {
    if (tag == "OVERFLOW") { vf::count(CNT_HIST_OVF); usable = check_ok_after_overflow(p, h); }
    else vf::count(CNT_OTHER_EXC);
    OUTBUF += id + "\t*\t" + tag + "\n";
  } else {
    vf::count(CNT_OTHER_EXC);
    for (size_t b = 0; b < ANS.size(); ++b) {
      // is a prefix of this history already a failure in the bounded build?
      std::string theirs; bool covered = prefix_failure(b, h, theirs);
      vf::count(CNT_CMP);
      if (covered && (theirs == "OVERFLOW" || theirs == tag)) { if (theirs == "OVERFLOW") vf::count(CNT_CMP_SKIP_OVF); continue; }
      if (vf::violcap().admit("exc" + LABELS[b])) vf::report_violation("C_Polyhedron::" + MENU[h.back()].name, "bounded:different-exception", "none",
          hist_json(h), LABELS[b] + " build: " + (covered ? theirs : std::string("completes")), "mpz build: " + tag, "");
    }
  }
  return usable;
}

static int DEPTH = 3;
static void extend(const C_Polyhedron& p, std::vector<int>& h) {
  if ((int)h.size() >= DEPTH) return;
  for (size_t op = 0; op < MENU.size(); ++op) {
    C_Polyhedron* q = new C_Polyhedron(p);
    h.push_back((int)op);
    vf::count(CNT_HIST);
    PENDING_BEFORE = q->has_pending_generators() ? "receiver_has_pending_generators" : q->has_pending_constraints() ? "receiver_has_pending_constraints" : "none";
    std::string t = apply(*q, (int)op);
    if (t.empty()) { finish_history(*q, h); extend(*q, h); delete q; }
    else if (failed_history(q, h, t)) guarded_delete(q, h, true);
    h.pop_back();
  }
}

int main(int argc, char** argv) {
  ARGS = vf::parse_args(argc, argv);
  vf::sink().open(ARGS.out);
  double t0 = vf::now_s();
  EMIT = ARGS.opt("--mode", "emit") == "emit";
  LABEL = ARGS.opt("--label", "bounded");
  DEPTH = atoi(ARGS.opt("--depth", "3").c_str());
  std::string ans = ARGS.opt("--ans", "c11_answers.txt");
  build_menu(); build_observers();
  const long long M = (long long)MENU.size();
  std::vector<std::string> DIRS;
  if (EMIT) { mkdir(ans.c_str(), 0777); DIRS.push_back(ans); }
  else {
    std::stringstream fs(ans), ls(ARGS.opt("--labels", "")); std::string fn, lb;
    while (std::getline(fs, fn, ',')) {
      std::getline(ls, lb, ','); LABELS.push_back(lb.empty() ? fn : lb); DIRS.push_back(fn);
      ANS.push_back(std::unordered_map<std::string, std::string>());
      std::ifstream probe((fn + "/0.txt").c_str());
      if (!probe) { vf::sink().line(J().str("t", "error").str("msg", "answer directory " + fn + " of the bounded build is missing or empty").done()); return 0; }
    }
  }
  // items: (first op, second op or none)
  const long long N = M * (M + 1);
  vf::Pool::Fn fn = [&](long long item, long long sub_start) {
    if (sub_start > 0 && vf::pool().only_sub < 0) return;   // the item is one sub-step: do not repeat it after a crash
    int i1 = (int)(item / (M + 1)), i2 = (int)(item % (M + 1)) - 1;
    if (DEPTH < 2 && i2 >= 0) return;
    vf::pool().step(0);
    install_guard();
    OUTBUF.clear();
    if (!EMIT)    // the bounded builds' answers for exactly this item
      for (size_t b = 0; b < ANS.size(); ++b) {
        ANS[b].clear();
        std::ifstream in((DIRS[b] + "/" + std::to_string(item) + ".txt").c_str()); std::string line;
        if (!in) { vf::sink().line(J().str("t", "error").str("msg", "no answers of build " + LABELS[b] + " for item " + std::to_string(item)).done()); return; }
        while (std::getline(in, line)) { size_t p2 = line.rfind('\t'); if (p2 != std::string::npos) ANS[b][line.substr(0, p2)] = line.substr(p2 + 1); }
      }
    C_Polyhedron* p = new C_Polyhedron(2);
    std::vector<int> h; h.push_back(i1);
    PENDING_BEFORE = "none";
    std::string t = apply(*p, i1);
    if (i2 < 0) {
      vf::count(CNT_HIST);
      if (t.empty()) { finish_history(*p, h); delete p; } else if (failed_history(p, h, t)) guarded_delete(p, h, true);
    }
    else if (t.empty()) {
      h.push_back(i2); vf::count(CNT_HIST);
      C_Polyhedron* q = new C_Polyhedron(*p);
      PENDING_BEFORE = q->has_pending_generators() ? "receiver_has_pending_generators" : q->has_pending_constraints() ? "receiver_has_pending_constraints" : "none";
      std::string t2 = apply(*q, i2);
      if (t2.empty()) { finish_history(*q, h); extend(*q, h); delete q; } else if (failed_history(q, h, t2)) guarded_delete(q, h, true);
      delete p;
    }
    else {   // the first operation failed: recorded by item (i1, none); repeat the record so that this item's file is self-contained
      if (EMIT) OUTBUF += hist_id(h) + "\t*\t" + t + "\n";
      guarded_delete(p, h, true);
    }
    if (EMIT) {
      int fd = open((ans + "/" + std::to_string(item) + ".txt").c_str(), O_WRONLY | O_CREAT | O_TRUNC, 0666);
      if (fd < 0 || write(fd, OUTBUF.data(), OUTBUF.size()) != (ssize_t)OUTBUF.size()) { perror("answers"); _exit(3); }
      close(fd);
    }
  };
  vf::Pool::CrashFn cf = [&](long long item, long long, int sig, bool confirmed) {
    if (!confirmed) return;
    int i1 = (int)(item / (M + 1)), i2 = (int)(item % (M + 1)) - 1;
    std::vector<int> h; h.push_back(i1); if (i2 >= 0) h.push_back(i2);
    vf::report_violation("C_Polyhedron", std::string("crash:") + vf::signame(sig), "none",
                         J().raw("history_prefix", hist_json(h)).str("build", EMIT ? LABEL : "mpz").done(), vf::signame(sig), "normal return or std::overflow_error", "");
  };
  vf::limit_memory(4ULL << 30);
  if (!ARGS.opt("--only-item", "").empty()) { fn(atoll(ARGS.opt("--only-item", "0").c_str()), 0); return 0; }   // debugging aid: in-process
  vf::pool().run(N, ARGS.jobs, fn, cf, ARGS, 120);
  bool complete = vf::counter(vf::CNT_SKIPPED) == 0;
  if (!EMIT && ARGS.has("--cleanup"))   // the answer directories of a depth-4 run take ~2 GB
    for (size_t b = 0; b < DIRS.size(); ++b) {
      for (long long it = 0; it < N; ++it) unlink((DIRS[b] + "/" + std::to_string(it) + ".txt").c_str());
      rmdir(DIRS[b].c_str());
    }
  J extra;
  extra.str("mode", EMIT ? "emit" : "compare").str("build", EMIT ? LABEL : "mpz (prod)").num("menu_operations", M).num("observers", (long long)OBS.size()).num("depth", DEPTH)
    .num("histories", vf::counter(CNT_HIST)).num("histories_ended_by_overflow_error", vf::counter(CNT_HIST_OVF))
    .num("histories_ended_by_other_exception", vf::counter(CNT_OTHER_EXC)).num("observer_answers", vf::counter(CNT_OBS))
    .num("observer_answers_overflow", vf::counter(CNT_OBS_OVF)).num("comparisons", vf::counter(CNT_CMP))
    .num("comparisons_excused_by_overflow_error", vf::counter(CNT_CMP_SKIP_OVF)).num("objects_not_OK_after_overflow", vf::counter(CNT_NOT_OK))
    .num("OK_check_itself_overflowed_inconclusive", vf::counter(CNT_OK_INCONCLUSIVE));
  std::vector<std::string> samples; { std::vector<int> h; h.push_back(5); h.push_back(15); h.push_back(22); samples.push_back(hist_json(h)); }
  J st; st.str("t", "stats").num("states", std::max<long long>(1, vf::counter(CNT_HIST))).num("transitions", std::max<long long>(1, vf::counter(vf::CNT_TRANS)))
    .num("traces_validated_against_impl", EMIT ? vf::counter(CNT_HIST) : vf::counter(CNT_CMP)).boolean("exhaustive", complete)
    .str("bound", std::string("part 2 (") + (EMIT ? "emit " + LABEL : "compare against mpz") + "): all histories of depth <= " + std::to_string(DEPTH) + " over a menu of " + std::to_string(M)
         + " C_Polyhedron operations (dim 2, coefficients up to +-100 and +-30000), " + std::to_string(OBS.size()) + " observers per history")
    .arr("samples", samples).raw("extra", extra.done()).dbl("wall_s", vf::now_s() - t0);
  vf::sink().line(st.done());
  return 0;
}

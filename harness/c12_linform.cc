// C12 part 2: interval linear forms and linearisation of floating point expressions.
// Bounded exhaustive enumeration of all expression trees of depth <= 2 over {constant, variable, (int) cast, unary -,
// +, -, *, /} with 2 variables, a menu of abstract stores (boxes and linear-form stores) and both analysed formats.
// Oracle: for every concrete store of a finite set inside the abstract store and each of the four IEEE rounding modes
// the expression is evaluated on the FPU in the analysed format; that value must lie in the interval obtained by
// evaluating the returned linear form on the concrete store exactly over Q -- or linearisation returned false.
#include "engine/common.hh"
#include "ppl-config.h"
#include "version.hh"
#include "ppl_include_files.hh"
#include "interfaces/interfaced_boxes.hh"
namespace Parma_Polyhedra_Library { extern Floating_Point_Format c12_analyzed_format; }
#define ANALYZED_FP_FORMAT (::Parma_Polyhedra_Library::c12_analyzed_format)
#include "tests/Concrete_Expression/C_Expr_defs.hh"
#include "harness/c12_ref.hh"
#include <fenv.h>
#include <cmath>
#include <limits>
#include <memory>

namespace Parma_Polyhedra_Library { Floating_Point_Format c12_analyzed_format = IEEE754_SINGLE; }
namespace PPL = Parma_Polyhedra_Library;
namespace R = c12;
using R::Q; using R::RI; using R::RB;

enum { CNT_LIN_CALLS = vf::CNT_USER, CNT_LIN_FAILED, CNT_CONC_EVALS, CNT_CONC_NONFINITE, CNT_TREES, CNT_LFOPS, CNT_MACH, CNT_FPE_CALLS, CNT_FPE_DISAGREE,
       CNT_T1_FAIL, CNT_T1_PASS };

static bool g_replay_mode = false;
static const int FE_MODES[4] = { FE_TONEAREST, FE_UPWARD, FE_DOWNWARD, FE_TOWARDZERO };
static const char* FE_NAMES[4] = { "nearest", "upward", "downward", "towardzero" };

static void viol(const std::string& site, const std::string& clause, const std::string& trigger, const std::string& input, const std::string& obs, const std::string& exp, const std::string& detail) {
  vf::count(vf::CNT_VIOL);
  if (g_replay_mode) { printf("VIOLATION %s clause=%s trigger=%s\n  input=%s\n  observed=%s\n  expected=%s\n  %s\n", site.c_str(), clause.c_str(), trigger.c_str(), input.c_str(), obs.c_str(), exp.c_str(), detail.c_str()); return; }
  if (!vf::violcap().admit(site + "|" + clause + "|" + trigger)) return;
  vf::report_violation(site, clause, trigger, input, obs, exp, detail);
}
static void mach_error(const std::string& msg) {
  vf::count(CNT_MACH);
  if (!vf::violcap().admit("MACH")) return;
  vf::J j; j.str("t", "error").str("msg", msg); vf::sink().line(j.done());
}

// ------------------------------------------------------------------------------------------------
template <typename F> struct FT;
template <> struct FT<float> {
  static const char* name() { return "float"; }
  static PPL::Floating_Point_Format fmt() { return PPL::IEEE754_SINGLE; }
  typedef PPL::float_ieee754_single ppl_format;
  static float parse(const char* s) { return strtof(s, 0); }
  static Q toq(float x) { return Q((double)x); }
};
template <> struct FT<double> {
  static const char* name() { return "double"; }
  static PPL::Floating_Point_Format fmt() { return PPL::IEEE754_DOUBLE; }
  typedef PPL::float_ieee754_double ppl_format;
  static double parse(const char* s) { return strtod(s, 0); }
  static Q toq(double x) { return Q(x); }
};
template <typename F> static bool finite_f(F x) { return x == x && x != std::numeric_limits<F>::infinity() && x != -std::numeric_limits<F>::infinity(); }
template <typename F> static std::string fstr(F x) { char b[64]; snprintf(b, sizeof b, "%.17g", (double)x); return b; }

// read a PPL floating point interval as an exact rational interval
template <typename ITV> static bool read_fp(const ITV& z, RI& out) {
  typedef typename ITV::boundary_type F;
  if (z.is_empty()) { out = R::empty_ri(); return true; }
  RB lo, hi;
  if (z.lower_is_boundary_infinity()) lo = R::minf();
  else { F v = z.lower(); if (v != v) return false; if (!finite_f(v)) { lo = v > 0 ? R::pinf() : R::minf(); } else lo = R::fin(FT<F>::toq(v), z.lower_is_open()); }
  if (z.upper_is_boundary_infinity()) hi = R::pinf();
  else { F v = z.upper(); if (v != v) return false; if (!finite_f(v)) { hi = v > 0 ? R::pinf() : R::minf(); } else hi = R::fin(FT<F>::toq(v), z.upper_is_open()); }
  out = R::mk(lo, hi);
  return true;
}

// ------------------------------------------------------------------------------------------------
// expression trees (own mirror AST for the concrete evaluation + the repository's C_Expr objects)
// ------------------------------------------------------------------------------------------------
enum NK { N_CONST, N_VAR, N_ICAST, N_NEG, N_BIN };
static const char* CONSTS[] = { "0", "1", "-1", "0.1", "3", "1e30" };
static const int NCONST = 6;
static const long ICASTS[] = { 3, 16777217L };   // (fp)3, (fp)(2^24+1): the latter is not representable in single precision
static const int NICAST = 2;
static const char OPS[4] = { '+', '-', '*', '/' };

struct Node {
  NK k; int idx; char op; const Node* l; const Node* r; std::string s;
  const PPL::Concrete_Expression<PPL::C_Expr>* ce;   // PPL side
  Node() : k(N_CONST), idx(0), op(0), l(0), r(0), ce(0) {}
};

template <typename F> struct Conc {   // concrete values of the constants per rounding mode
  F cval[4][NCONST]; F ival[4][NICAST];
};
// concrete evaluation in the analysed format on the FPU under the current rounding mode; volatile everywhere so that
// nothing is folded or kept in wider registers
template <typename F> static bool ceval(const Node* n, const F* vars, const Conc<F>& cc, int mode, F& out) {
  switch (n->k) {
  case N_CONST: out = cc.cval[mode][n->idx]; return true;
  case N_ICAST: out = cc.ival[mode][n->idx]; return true;
  case N_VAR: out = vars[n->idx]; return true;
  case N_NEG: { F a; if (!ceval(n->l, vars, cc, mode, a)) return false; volatile F va = a; volatile F r = -va; out = r; return finite_f(out); }
  default: {
    F a, b; if (!ceval(n->l, vars, cc, mode, a) || !ceval(n->r, vars, cc, mode, b)) return false;
    volatile F va = a, vb = b; volatile F r;
    switch (n->op) { case '+': r = va + vb; break; case '-': r = va - vb; break; case '*': r = va * vb; break; default: r = va / vb; break; }
    out = r; return finite_f(out);
  }
  }
}

// ------------------------------------------------------------------------------------------------
// the repository's second implementation: the Floating_Point_Expression class hierarchy.  It cannot be instantiated
// for a float analyser format (Floating_Point_Expression_templates.hh: std::max(double, float) does not compile), so it
// is exercised for the double format only.
// ------------------------------------------------------------------------------------------------
template <typename F, bool ENABLED> struct FpeImpl {
  template <typename IStore, typename LStore, typename LF> static int linearize(const Node*, const IStore&, const LStore&, LF&) { return -1; }
  template <typename IStore, typename LStore, typename LF> static int linearize_string_constant(int, const IStore&, const LStore&, LF&) { return -1; }
};
template <typename F> struct FpeImpl<F, true> {
  typedef PPL::Interval<F, PPL::Floating_Point_Box_Interval_Info> FPI;
  typedef typename FT<F>::ppl_format FMT;
  typedef PPL::Floating_Point_Expression<FPI, FMT> FPE;
  static FPE* build(const Node* n) {
    switch (n->k) {
    case N_CONST: { FPI v(CONSTS[n->idx]); return new PPL::Constant_Floating_Point_Expression<FPI, FMT>(v.lower(), v.upper()); }
    case N_VAR: return new PPL::Variable_Floating_Point_Expression<FPI, FMT>(n->idx);
    case N_ICAST: return 0;
    case N_NEG: { FPE* a = build(n->l); if (!a) return 0; return new PPL::Opposite_Floating_Point_Expression<FPI, FMT>(a); }
    default: {
      FPE* a = build(n->l); if (!a) return 0; FPE* b = build(n->r); if (!b) { delete a; return 0; }
      switch (n->op) {
      case '+': return new PPL::Sum_Floating_Point_Expression<FPI, FMT>(a, b);
      case '-': return new PPL::Difference_Floating_Point_Expression<FPI, FMT>(a, b);
      case '*': return new PPL::Multiplication_Floating_Point_Expression<FPI, FMT>(a, b);
      default: return new PPL::Division_Floating_Point_Expression<FPI, FMT>(a, b);
      }
    }
    }
  }
  template <typename IStore, typename LStore, typename LF> static int linearize_string_constant(int idx, const IStore& box, const LStore& lf, LF& result) {
    PPL::Constant_Floating_Point_Expression<FPI, FMT> e(CONSTS[idx]);
    return e.linearize(box, lf, result) ? 1 : 0;
  }
  // -1: not applicable, 0: linearize returned false, 1: true
  template <typename IStore, typename LStore, typename LF> static int linearize(const Node* n, const IStore& box, const LStore& lf, LF& result) {
    FPE* e = build(n); if (!e) return -1;
    bool ok = e->linearize(box, lf, result); delete e; return ok ? 1 : 0;
  }
};
template <typename F> struct FpeEnabled { enum { value = 0 }; };
template <> struct FpeEnabled<double> { enum { value = 1 }; };
#ifdef C12_FPE_FLOAT   /* only compiles once proposed_fixes/C12-5.diff is applied */
template <> struct FpeEnabled<float> { enum { value = 1 }; };
#endif

template <typename F> struct World {
  typedef PPL::Interval<F, PPL::Floating_Point_Box_Interval_Info> FPI;
  typedef PPL::Linear_Form<FPI> LF;
  typedef PPL::Box<FPI> IStore;
  typedef std::map<PPL::dimension_type, LF> LStore;

  struct Oracle : public PPL::FP_Oracle<PPL::C_Expr, FPI> {
    IStore box;
    Oracle() : box(2) {}
    bool get_interval(PPL::dimension_type dim, FPI& result) const { result = box.get_interval(PPL::Variable(dim)); return true; }
    // Interval(const char*) is the smallest interval containing the REAL number (open when it is not representable);
    // the constant of the analysed program is one of the two neighbouring floating point numbers, so the oracle hands
    // out the topological closure
    bool get_fp_constant_value(const PPL::Floating_Point_Constant<PPL::C_Expr>& expr, FPI& result) const { result = FPI((const char*)expr.value); result.topological_closure_assign(); return true; }
    bool get_integer_expr_value(const PPL::Concrete_Expression<PPL::C_Expr>& expr, FPI& result) const {
      if (expr.kind() == PPL::INT_CON) result = FPI(reinterpret_cast<const PPL::Integer_Constant<PPL::C_Expr>*>(&expr)->value);
      else result = FPI(reinterpret_cast<const PPL::Approximable_Reference<PPL::C_Expr>*>(&expr)->value);
      return true;
    }
    bool get_associated_dimensions(const PPL::Approximable_Reference<PPL::C_Expr>& expr, std::set<PPL::dimension_type>& result) const { result = expr.dimensions; return true; }
  };
  struct Store {
    std::string name; Oracle oracle; LStore lf; std::vector<std::pair<F, F> > conc; bool is_lf;
  };

  std::string tname;
  PPL::Concrete_Expression_Type fp_type;
  Conc<F> cc;
  std::vector<Node*> leaves, subs;    // subs: subtrees of depth <= 1 allowed as children of a depth-2 root
  std::vector<Node*> d1;              // all trees of depth <= 1
  std::vector<Store*> stores;
  int saved_round;

  World() : fp_type(PPL::Concrete_Expression_Type::floating_point(FT<F>::fmt())), string_ctor(false) {}

  static FPI mkitv(F lo, F hi) { FPI z; F l = lo, h = hi; z.build(PPL::i_constraint(PPL::GREATER_OR_EQUAL, l), PPL::i_constraint(PPL::LESS_OR_EQUAL, h)); return z; }
  static FPI str_itv(const char* s) { return FPI(s); }

  Node* leaf(NK k, int idx) {
    Node* n = new Node; n->k = k; n->idx = idx;
    if (k == N_CONST) { n->s = CONSTS[idx]; n->ce = new PPL::Floating_Point_Constant<PPL::C_Expr>(CONSTS[idx], strlen(CONSTS[idx]) + 1); }
    else if (k == N_VAR) { n->s = idx == 0 ? "x0" : "x1"; n->ce = new PPL::Approximable_Reference<PPL::C_Expr>(fp_type, PPL::Integer_Interval(mpz_class(0)), idx); }
    else {
      std::ostringstream o; o << "(fp)" << ICASTS[idx]; n->s = o.str();
      PPL::Concrete_Expression_Type it = PPL::Concrete_Expression_Type::bounded_integer(PPL::BITS_32, PPL::SIGNED_2_COMPLEMENT, PPL::OVERFLOW_UNDEFINED);
      PPL::Integer_Constant<PPL::C_Expr>* ic = new PPL::Integer_Constant<PPL::C_Expr>(it, PPL::Integer_Interval(mpz_class(ICASTS[idx])));
      n->ce = new PPL::Cast_Operator<PPL::C_Expr>(fp_type, ic);
    }
    return n;
  }
  Node* neg(const Node* a) {
    Node* n = new Node; n->k = N_NEG; n->l = a; n->s = "-(" + a->s + ")";
    n->ce = new PPL::Unary_Operator<PPL::C_Expr>(fp_type, PPL::Unary_Operator<PPL::C_Expr>::UMINUS, a->ce);
    return n;
  }
  static int bopcode(char op) { switch (op) { case '+': return PPL::Binary_Operator<PPL::C_Expr>::ADD; case '-': return PPL::Binary_Operator<PPL::C_Expr>::SUB; case '*': return PPL::Binary_Operator<PPL::C_Expr>::MUL; default: return PPL::Binary_Operator<PPL::C_Expr>::DIV; } }
  Node* bin(char op, const Node* a, const Node* b) {
    Node* n = new Node; n->k = N_BIN; n->op = op; n->l = a; n->r = b; n->s = "(" + a->s + " " + op + " " + b->s + ")";
    n->ce = new PPL::Binary_Operator<PPL::C_Expr>(fp_type, bopcode(op), a->ce, b->ce);
    return n;
  }
  static void free_node(Node* n) { delete n->ce; delete n; }

  F next_up(F x) { return std::nextafter(x, std::numeric_limits<F>::infinity()); }
  F next_dn(F x) { return std::nextafter(x, -std::numeric_limits<F>::infinity()); }
  // points of [lo,hi]: bounds, midpoint, one-ulp neighbours, zero
  std::vector<F> points(F lo, F hi) {
    std::vector<F> p; p.push_back(lo);
    if (hi != lo) {
      p.push_back(hi);
      volatile F h1 = lo / 2, h2 = hi / 2; volatile F midv = h1 + h2; F mid = midv; if (mid >= lo && mid <= hi) p.push_back(mid);
      F a = next_up(lo), b = next_dn(hi); if (a < hi) p.push_back(a); if (b > lo) p.push_back(b);
      if (lo < 0 && hi > 0) p.push_back((F)0);
    }
    std::sort(p.begin(), p.end()); p.erase(std::unique(p.begin(), p.end()), p.end());
    return p;
  }
  // worst-case rounding companions: values y of [lo,hi] such that e*y is just above / below a power of two for an
  // end point e of the other variable (the products then need a full ulp of rounding)
  void companions(std::vector<F>& p, F lo, F hi, F e0, F e1) {
    F es[2] = { e0, e1 };
    for (int a = 0; a < 2; ++a) { F e = es[a] < 0 ? -es[a] : es[a]; if (e == 0 || !finite_f(e)) continue;
      for (int k = 0; k <= 4; ++k) { volatile F pw = std::ldexp((F)1, k); volatile F q = pw / e; F y = q;   // (computed in round-up mode)
        F c[4] = { y, next_dn(y), (F)-y, next_up((F)-y) };
        for (int j = 0; j < 4; ++j) if (finite_f(c[j]) && c[j] >= lo && c[j] <= hi) p.push_back(c[j]); } }
    if (lo < 0 && hi > 0) { p.push_back(std::numeric_limits<F>::denorm_min()); p.push_back(-std::numeric_limits<F>::denorm_min()); F t = std::ldexp((F)1, -30); p.push_back(t); p.push_back(-t); }
    std::sort(p.begin(), p.end()); p.erase(std::unique(p.begin(), p.end()), p.end());
  }
  // box store evaluated at the END POINTS, their neighbours and the worst-case companions
  Store* edge_store(const std::string& nm, F l0, F h0, F l1, F h1) {
    Store* s = new Store; s->name = nm; s->is_lf = false;
    s->oracle.box.set_interval(PPL::Variable(0), mkitv(l0, h0)); s->oracle.box.set_interval(PPL::Variable(1), mkitv(l1, h1));
    std::vector<F> p0 = points(l0, h0), p1 = points(l1, h1);
    companions(p1, l1, h1, l0, h0);
    if (l0 < 0 && h0 > 0) { p0.push_back(std::numeric_limits<F>::denorm_min()); p0.push_back(-std::numeric_limits<F>::denorm_min()); std::sort(p0.begin(), p0.end()); }
    for (size_t a = 0; a < p0.size(); ++a) for (size_t b = 0; b < p1.size(); ++b) s->conc.push_back(std::make_pair(p0[a], p1[b]));
    return s;
  }
  // exact rounding of a rational towards +inf / -inf in F
  F round_q(const Q& q, bool up) { F lo, hi; roundings(q, lo, hi); return up ? hi : lo; }
  // linear-form store x1 -> [cl,ch]*x0 + [dl,dh] with an asymmetric zero-straddling coefficient; concrete stores: x0 at
  // the end points / companions, x1 at (the inward roundings of) the extreme values of the form
  Store* asym_lf_store(const std::string& nm, F cl, F ch, F dl, F dh, F l0, F h0) {
    Store* s = new Store; s->name = nm; s->is_lf = true;
    LF f(PPL::Variable(0)); f *= mkitv(cl, ch); f += mkitv(dl, dh); s->lf[1] = f;
    std::vector<F> p0 = points(l0, h0); companions(p0, l0, h0, cl, ch);
    Q lo1, hi1; bool first = true;
    std::vector<std::pair<F, F> > cs;
    for (size_t a = 0; a < p0.size(); ++a) {
      Q x = FT<F>::toq(p0[a]);
      Q c1 = FT<F>::toq(cl) * x, c2 = FT<F>::toq(ch) * x; Q mn = c1 < c2 ? c1 : c2, mx = c1 < c2 ? c2 : c1;
      Q vlo = mn + FT<F>::toq(dl), vhi = mx + FT<F>::toq(dh);
      F a1 = round_q(vlo, true), a2 = round_q(vhi, false), a3 = round_q(mn, true), a4 = round_q(mx, false);
      F cand[4] = { a1, a2, a3, a4 };
      for (int j = 0; j < 4; ++j) { Q v = FT<F>::toq(cand[j]); if (v < vlo || v > vhi) continue; cs.push_back(std::make_pair(p0[a], cand[j]));
        if (first || v < lo1) lo1 = v; if (first || v > hi1) hi1 = v; first = false; }
    }
    s->conc = cs;
    s->oracle.box.set_interval(PPL::Variable(0), mkitv(l0, h0));
    s->oracle.box.set_interval(PPL::Variable(1), mkitv(round_q(lo1, false), round_q(hi1, true)));
    return s;
  }
  Store* box_store(const std::string& nm, bool u0, F l0, F h0, F l1, F h1) {
    Store* s = new Store; s->name = nm; s->is_lf = false;
    if (!u0) s->oracle.box.set_interval(PPL::Variable(0), mkitv(l0, h0));
    s->oracle.box.set_interval(PPL::Variable(1), mkitv(l1, h1));
    std::vector<F> p0;
    if (u0) { F big = std::numeric_limits<F>::max(); F v[] = { (F)0, (F)1, (F)-3, big, -big, std::numeric_limits<F>::denorm_min(), (F)1e10 }; p0.assign(v, v + 7); }
    else p0 = points(l0, h0);
    std::vector<F> p1 = points(l1, h1);
    for (size_t a = 0; a < p0.size(); ++a) for (size_t b = 0; b < p1.size(); ++b) s->conc.push_back(std::make_pair(p0[a], p1[b]));
    return s;
  }

  void init(bool thorough) {
    tname = FT<F>::name();
    saved_round = fegetround();
    PPL::c12_analyzed_format = FT<F>::fmt();
    // constants per rounding mode (strtof/strtod honour the dynamic rounding mode)
    for (int m = 0; m < 4; ++m) {
      fesetround(FE_MODES[m]);
      for (int k = 0; k < NCONST; ++k) cc.cval[m][k] = FT<F>::parse(CONSTS[k]);
      for (int k = 0; k < NICAST; ++k) { volatile long iv = ICASTS[k]; volatile F f = (F)iv; cc.ival[m][k] = f; }
      fesetround(saved_round);
    }
    for (int k = 0; k < NCONST; ++k) leaves.push_back(leaf(N_CONST, k));
    leaves.push_back(leaf(N_VAR, 0)); leaves.push_back(leaf(N_VAR, 1));
    std::vector<Node*> casts; for (int k = 0; k < NICAST; ++k) casts.push_back(leaf(N_ICAST, k));
    // all trees of depth <= 1
    for (size_t a = 0; a < leaves.size(); ++a) d1.push_back(leaves[a]);
    for (size_t a = 0; a < casts.size(); ++a) d1.push_back(casts[a]);
    std::vector<Node*> negs, bins;
    for (size_t a = 0; a < leaves.size(); ++a) negs.push_back(neg(leaves[a]));
    for (int o = 0; o < 4; ++o) for (size_t a = 0; a < leaves.size(); ++a) for (size_t b = 0; b < leaves.size(); ++b) bins.push_back(bin(OPS[o], leaves[a], leaves[b]));
    d1.insert(d1.end(), negs.begin(), negs.end()); d1.insert(d1.end(), bins.begin(), bins.end());
    // children of depth-2 roots
    if (thorough) { subs = d1; }
    else {
      // quick menu: all leaves, casts, -x0, -x1 and the binary subtrees over {x0, x1, 0.1, 3}
      subs = leaves; subs.insert(subs.end(), casts.begin(), casts.end());
      subs.push_back(negs[NCONST]); subs.push_back(negs[NCONST + 1]);
      for (size_t k = 0; k < bins.size(); ++k) {
        const Node* n = bins[k];
        bool okl = n->l->k == N_VAR || (n->l->k == N_CONST && (n->l->idx == 3 || n->l->idx == 4));
        bool okr = n->r->k == N_VAR || (n->r->k == N_CONST && (n->r->idx == 3 || n->r->idx == 4));
        if (okl && okr) subs.push_back(bins[k]);
      }
    }
    // ---- abstract stores
    typedef std::numeric_limits<F> L;
    stores.push_back(box_store("B0:x0=[0,0],x1=[10,10]", false, 0, 0, 10, 10));
    stores.push_back(box_store("B1:x0=[-1,1],x1=[1,2]", false, -1, 1, 1, 2));
    { FPI t = str_itv("0.1"), u = str_itv("0.3"); stores.push_back(box_store("B2:x0=[0.1,0.3],x1=[-3,-1]", false, t.lower(), u.upper(), -3, -1)); }
    stores.push_back(box_store("B3:x0=[1e30,2e30],x1=[-1e-30,1e-30]", false, (F)1e30, (F)2e30, (F)-1e-30, (F)1e-30));
    stores.push_back(box_store("B4:x0=[-4dmin,4dmin],x1=[1,1]", false, -4 * L::denorm_min(), 4 * L::denorm_min(), 1, 1));
    stores.push_back(box_store("B5:x0=universe,x1=[2,4]", true, 0, 0, 2, 4));
    if (thorough) {
      stores.push_back(box_store("B6:x0=[max/2,max],x1=[1,2]", false, L::max() / 2, L::max(), 1, 2));
      stores.push_back(box_store("B7:x0=[-2,-1],x1=[-1,3]", false, -2, -1, -1, 3));
    }
    // linear-form stores: the concrete stores satisfy x_k in eval(lf_k) over the reals
    {
      Store* s = new Store; s->name = "L1:x1->x0;x0,x1=[-1,1]"; s->is_lf = true;
      s->oracle.box.set_interval(PPL::Variable(0), mkitv(-1, 1)); s->oracle.box.set_interval(PPL::Variable(1), mkitv(-1, 1));
      s->lf[1] = LF(PPL::Variable(0));
      std::vector<F> p = points(-1, 1); p.push_back((F)0.5); p.push_back((F)-0.25);
      for (size_t a = 0; a < p.size(); ++a) s->conc.push_back(std::make_pair(p[a], p[a]));
      stores.push_back(s);
    }
    {
      Store* s = new Store; s->name = "L2:x1->2*x0+1;x0=[0,1],x1=[1,3]"; s->is_lf = true;
      s->oracle.box.set_interval(PPL::Variable(0), mkitv(0, 1)); s->oracle.box.set_interval(PPL::Variable(1), mkitv(1, 3));
      LF f(PPL::Variable(0)); f *= mkitv(2, 2); f += mkitv(1, 1); s->lf[1] = f;
      F xs[] = { (F)0, (F)0.25, (F)0.5, (F)0.75, (F)1, (F)0.125 };
      for (int a = 0; a < 6; ++a) s->conc.push_back(std::make_pair(xs[a], (F)(2 * xs[a] + 1)));
      stores.push_back(s);
    }
    {
      Store* s = new Store; s->name = "L3:x0->[0.5,1.5]*x1+[-0.25,0.25];x1=[1,2],x0=[0.25,3.25]"; s->is_lf = true;
      s->oracle.box.set_interval(PPL::Variable(0), mkitv((F)0.25, (F)3.25)); s->oracle.box.set_interval(PPL::Variable(1), mkitv(1, 2));
      LF f(PPL::Variable(1)); f *= mkitv((F)0.5, (F)1.5); f += mkitv((F)-0.25, (F)0.25); s->lf[0] = f;
      F ys[] = { (F)1, (F)1.5, (F)2 };
      for (int b = 0; b < 3; ++b) { F y = ys[b]; F xs[] = { (F)(0.5 * y - 0.25), y, (F)(1.5 * y + 0.25), (F)(0.5 * y + 0.25) }; for (int a = 0; a < 4; ++a) s->conc.push_back(std::make_pair(xs[a], y)); }
      stores.push_back(s);
    }
    // asymmetric zero-straddling intervals (|lower| > upper and the mirror image), judged at end points and worst-case
    // rounding companions; appended last so that the indices of the stores above stay stable
    stores.push_back(edge_store("B8:x0=[-6.5,1],x1=[0,16]@edges", (F)-6.5, 1, 0, 16));
    stores.push_back(asym_lf_store("L4:x1->[-6.5,1]*x0+[-1,1];x0=[0,16]@edges", (F)-6.5, 1, -1, 1, 0, 16));
    if (thorough) {
      stores.push_back(edge_store("B9:x0=[-1,3],x1=[-16,2]@edges", -1, 3, -16, 2));
      stores.push_back(asym_lf_store("L5:x1->[-1,3]*x0+[-3,1];x0=[-2,8]@edges", -1, 3, -3, 1, -2, 8));
    }
    // self-check: every concrete store lies inside its abstract store
    for (size_t k = 0; k < stores.size(); ++k) {
      Store* s = stores[k];
      for (size_t c = 0; c < s->conc.size(); ++c) {
        F v[2] = { s->conc[c].first, s->conc[c].second };
        for (int d = 0; d < 2; ++d) {
          RI b; read_fp(s->oracle.box.get_interval(PPL::Variable(d)), b);
          if (!R::has(b, FT<F>::toq(v[d]))) mach_error("concrete store outside box: " + s->name);
          typename LStore::const_iterator it = s->lf.find(d);
          if (it != s->lf.end()) { RI e; if (!eval_form(it->second, v, e) || !R::has(e, FT<F>::toq(v[d]))) mach_error("concrete store outside linear-form store: " + s->name); }
        }
      }
    }
  }

  // exact evaluation of a PPL linear form on a concrete store
  static bool read_form(const LF& f, RI coef[3]) {
    coef[0] = R::point_ri(0); coef[1] = R::point_ri(0); coef[2] = R::point_ri(0);
    if (f.space_dimension() > 2) return false;
    if (!read_fp(f.inhomogeneous_term(), coef[0])) return false;
    for (PPL::dimension_type d = 0; d < f.space_dimension(); ++d) if (!read_fp(f.coefficient(PPL::Variable(d)), coef[d + 1])) return false;
    return true;
  }
  static RI eval_coefs(const RI coef[3], const F* v) {
    RI e = coef[0];
    for (int d = 0; d < 2; ++d) e = R::add(e, R::mul(coef[d + 1], R::point_ri(FT<F>::toq(v[d]))));
    return e;
  }
  static bool eval_form(const LF& f, const F* v, RI& out) { RI c[3]; if (!read_form(f, c)) return false; out = eval_coefs(c, v); return true; }
  static std::string form_str(const RI coef[3]) { return R::str(coef[1]) + "*x0 + " + R::str(coef[2]) + "*x1 + " + R::str(coef[0]); }

  // ---------------------------------------------------------------------------------------------
  // check one tree in one abstract store
  // ---------------------------------------------------------------------------------------------
  void judge_form(const Node* t, const Store& st, const char* impl, const LF& result, const std::vector<std::vector<F> >& vals, const std::vector<std::vector<char> >& fin, long long a, long long b, int op, size_t si) {
    RI coef[3];
    std::string site = std::string(impl) + "<" + tname + ">";
    std::string root = t->k == N_BIN ? std::string(1, t->op) : (t->k == N_NEG ? "neg" : "leaf");
    vf::J in; in.str("format", tname).str("expr", t->s).str("store", st.name).num("si", (long long)si).num("a", a).num("b", b).num("op", op).str("impl", impl);
    if (!read_form(result, coef)) { viol(site, "invariant", "none", in.done(), "NaN coefficient or too many dimensions", "well-formed linear form", "linearize returned true with an ill-formed result"); return; }
    if (g_replay_mode && getenv("C12_VERBOSE")) printf("  %s: %s -> %s\n", impl, t->s.c_str(), form_str(coef).c_str());
    for (size_t c = 0; c < st.conc.size(); ++c) {
      F v[2] = { st.conc[c].first, st.conc[c].second };
      RI E; bool have = false;
      for (int m = 0; m < 4; ++m) {
        if (!fin[m][c]) continue;
        if (!have) { vf::RefGuard g; E = eval_coefs(coef, v); have = true; }
        Q q = FT<F>::toq(vals[m][c]);
        if (g_replay_mode && getenv("C12_VERBOSE")) {   // margins of every concrete evaluation
          Q dl = E.lo.inf ? Q(0) : Q(q - E.lo.v), dh = E.hi.inf ? Q(0) : Q(E.hi.v - q);
          printf("  %s x0=%s x1=%s %s value=%s margin_low=%.3g margin_high=%.3g (ulps of value: %.3g / %.3g)\n", t->s.c_str(), fstr(v[0]).c_str(), fstr(v[1]).c_str(), FE_NAMES[m], fstr(vals[m][c]).c_str(),
                 dl.get_d(), dh.get_d(), dl.get_d() / (double)(next_up(vals[m][c] < 0 ? -vals[m][c] : vals[m][c]) - (vals[m][c] < 0 ? -vals[m][c] : vals[m][c])), dh.get_d() / (double)(next_up(vals[m][c] < 0 ? -vals[m][c] : vals[m][c]) - (vals[m][c] < 0 ? -vals[m][c] : vals[m][c])));
        }
        if (!R::has(E, q)) {
          vf::J in2 = in; in2.str("x0", fstr(v[0])).str("x1", fstr(v[1])).str("rounding", FE_NAMES[m]);
          viol(site, "enclosure", trig_for(t, st), in2.done(), "concrete value " + fstr(vals[m][c]) + " (" + R::qstr(q) + ")", "in " + R::str(E) + " = eval(" + form_str(coef) + ")",
               "the concrete FPU value of the expression in this store and rounding mode is outside the evaluated linear form");
          if (trig_for(t, st) != "none") vf::count(CNT_T1_FAIL);
          return;
        }
      }
    }
    if (trig_for(t, st) != "none") vf::count(CNT_T1_PASS);
  }
  // non-vacuity: a binary operation on the two variables in the bounded store B1 (x1 = [1,2] excludes 0) has no reason
  // to fail; an implementation that always reports failure would satisfy the enclosure clause vacuously
  void must_succeed(const Node* t, const Store& st, const char* impl, size_t si, long long b) {
    if (!(t->k == N_BIN && t->l->k == N_VAR && t->r->k == N_VAR && si == 1)) return;
    if (t->op == '/' && t->r->idx == 0) return;   // x0 = [-1,1] contains 0: failure is the documented answer
    vf::J in; in.str("format", tname).str("expr", t->s).str("store", st.name).num("si", (long long)si).num("a", -1).num("b", b).num("op", -1).str("impl", impl);
    viol(std::string(impl) + "<" + tname + ">", "spurious_failure", "binary_operation_on_variables_in_bounded_store", in.done(), "linearize returned false", "a linear form",
         "linearisation of a binary operation on two bounded variables failed: the enclosure property holds only vacuously");
  }
  bool string_ctor;
  std::string trig_for(const Node* t, const Store&) {
    if (string_ctor && t->k == N_CONST) {
      // is the decimal constant representable in the analysed format?  (identical value in all rounding modes)
      bool exact = true; for (int m = 1; m < 4; ++m) if (cc.cval[m][t->idx] != cc.cval[0][t->idx]) exact = false;
      if (!exact) return "decimal_constant_not_representable_in_analysed_format";
    }
    return "none";
  }

  void check_tree(const Node* t, size_t si, long long a, long long b, int op) {
    Store& st = *stores[si];
    vf::count(CNT_TREES);
    // concrete side first: all stores x 4 rounding modes
    std::vector<std::vector<F> > vals(4, std::vector<F>(st.conc.size()));
    std::vector<std::vector<char> > fin(4, std::vector<char>(st.conc.size()));
    for (int m = 0; m < 4; ++m) {
      fesetround(FE_MODES[m]);
      for (size_t c = 0; c < st.conc.size(); ++c) {
        F v[2] = { st.conc[c].first, st.conc[c].second }; F out = 0;
        // overflow, division by zero and invalid operations are run-time errors of the analysed program (under the
        // directed rounding modes an overflow returns +-max instead of an infinity, hence the exception flags)
        feclearexcept(FE_ALL_EXCEPT);
        bool okc = ceval(t, v, cc, m, out);
        if (fetestexcept(FE_OVERFLOW | FE_DIVBYZERO | FE_INVALID)) okc = false;
        fin[m][c] = okc ? 1 : 0; vals[m][c] = out;
      }
      feclearexcept(FE_ALL_EXCEPT);
      fesetround(saved_round);
    }
    long long nf = 0; for (int m = 0; m < 4; ++m) for (size_t c = 0; c < st.conc.size(); ++c) if (!fin[m][c]) ++nf;
    vf::count(CNT_CONC_EVALS, 4 * (long long)st.conc.size()); vf::count(CNT_CONC_NONFINITE, nf);
    // implementation 1: linearize() on Concrete_Expression
    {
      LF result; vf::count(CNT_LIN_CALLS); vf::count(vf::CNT_TRANS);
      bool ok = PPL::linearize(*t->ce, st.oracle, st.lf, result);
      if (fegetround() != saved_round) { mach_error("rounding mode changed by linearize"); fesetround(saved_round); }
      if (!ok) { vf::count(CNT_LIN_FAILED); must_succeed(t, st, "linearize", si, b); }
      else judge_form(t, st, "linearize", result, vals, fin, a, b, op, si);
    }
    // implementation 2: Floating_Point_Expression hierarchy (double only; no cast of integer constants there)
    {
      LF result;
      int r = FpeImpl<F, FpeEnabled<F>::value != 0>::linearize(t, st.oracle.box, st.lf, result);
      if (fegetround() != saved_round) { mach_error("rounding mode changed by Floating_Point_Expression::linearize"); fesetround(saved_round); }
      if (r >= 0) { vf::count(CNT_FPE_CALLS); vf::count(vf::CNT_TRANS); }
      if (r == 1) judge_form(t, st, "Floating_Point_Expression::linearize", result, vals, fin, a, b, op, si);
      if (r == 0) must_succeed(t, st, "Floating_Point_Expression::linearize", si, b);
    }
    // the string constructor of Constant_Floating_Point_Expression, on constant leaves only
    if (t->k == N_CONST) {
      LF result;
      int r = FpeImpl<F, FpeEnabled<F>::value != 0>::linearize_string_constant(t->idx, st.oracle.box, st.lf, result);
      if (r >= 0) { vf::count(CNT_FPE_CALLS); vf::count(vf::CNT_TRANS); }
      if (r == 1) { string_ctor = true; judge_form(t, st, "Constant_Floating_Point_Expression(const char*)::linearize", result, vals, fin, a, b, op, si); string_ctor = false; }
    }
  }

  // items: for every store, item 0 = all trees of depth <= 1 and unary minus of the subtrees; item 1+a = roots op(subs[a], subs[b])
  size_t items_per_store() const { return 1 + subs.size(); }
  void run_item(size_t si, size_t it, long long sub_start) {
    PPL::c12_analyzed_format = FT<F>::fmt();
    if (it == 0) {
      for (size_t k = 0; k < d1.size(); ++k) { if (!vf::pool().want((long long)k, sub_start)) continue; vf::pool().step((long long)k); check_tree(d1[k], si, -1, (long long)k, -1); }
      for (size_t k = 0; k < subs.size(); ++k) {
        long long sub = (long long)(d1.size() + k);
        if (!vf::pool().want(sub, sub_start)) continue; vf::pool().step(sub);
        if (subs[k]->k != N_BIN) continue;   // -(leaf) is already in d1, -(-(x)) adds nothing
        Node* n = neg(subs[k]); check_tree(n, si, -2, (long long)k, -1); free_node(n);
      }
      return;
    }
    size_t a = it - 1;
    for (size_t b = 0; b < subs.size(); ++b) for (int o = 0; o < 4; ++o) {
      if (subs[a]->k != N_BIN && subs[a]->k != N_NEG && subs[b]->k != N_BIN && subs[b]->k != N_NEG) continue;  // depth <= 1: in d1 already
      long long sub = (long long)b * 4 + o;
      if (!vf::pool().want(sub, sub_start)) continue; vf::pool().step(sub);
      Node* n = bin(OPS[o], subs[a], subs[b]); check_tree(n, si, (long long)a, (long long)b, o); free_node(n);
    }
  }

  // ---------------------------------------------------------------------------------------------
  // direct checks of Linear_Form arithmetic, relative_error and intervalize
  // ---------------------------------------------------------------------------------------------
  // all values of F adjacent to the rational q (largest <= q and smallest >= q): every rounding mode returns one of them
  void roundings(const Q& q, F& lo, F& hi) {
    F f = (F)q.get_d();
    if (!finite_f(f)) f = q > 0 ? std::numeric_limits<F>::max() : -std::numeric_limits<F>::max();
    while (FT<F>::toq(f) > q && f > -std::numeric_limits<F>::max()) f = next_dn(f);
    while (f < std::numeric_limits<F>::max() && FT<F>::toq(next_up(f)) <= q) f = next_up(f);
    lo = f; hi = (FT<F>::toq(f) == q || f >= std::numeric_limits<F>::max()) ? f : next_up(f);
  }
  // ---------------------------------------------------------------------------------------------
  // exhaustive coefficient-level check of the helper forms against an exact rational reference:
  // forms  i + c0*x0 + c1*x1  with (i, c0, c1) ranging over ALL triples of a coefficient-interval menu
  // ---------------------------------------------------------------------------------------------
  void run_lfmenu(bool thorough) {
    FPI tenth = str_itv("0.1"); tenth.topological_closure_assign();
    std::vector<FPI> cm; std::vector<std::string> cn;
    #define CMI(lo, hi, nm) { cm.push_back(mkitv((F)(lo), (F)(hi))); cn.push_back(nm); }
    CMI(-3, 1, "[-3,1]") CMI(-1, 3, "[-1,3]") CMI(-6.5, 1, "[-6.5,1]") CMI(0, 1, "[0,1]") CMI(-1, 0, "[-1,0]") CMI(2, 2, "[2,2]") CMI(-2, -2, "[-2,-2]")
    CMI(-1, 1, "[-1,1]") CMI(0, 0, "[0,0]")
    cm.push_back(tenth); cn.push_back("[0.1]");
    if (thorough) { CMI(-1e30, 3, "[-1e30,3]") CMI(-0.25, 1e-30, "[-0.25,1e-30]") CMI(-7, -0.5, "[-7,-0.5]") }
    #undef CMI
    size_t n = cm.size();
    std::vector<RI> cr(n); for (size_t k = 0; k < n; ++k) read_fp(cm[k], cr[k]);
    // relative rounding error bound (one ulp over the smallest significand) of every analysed format: base 2 with hidden
    // bit: 2^-fraction_bits; IBM single (6 hexadecimal digits, no hidden bit, leading digit >= 1): 16^(1-6) = 2^-20
    struct FmtRef { PPL::Floating_Point_Format f; const char* name; int log2_relerr; };
    static const FmtRef FR[6] = { { PPL::IEEE754_HALF, "HALF", -10 }, { PPL::IEEE754_SINGLE, "SINGLE", -23 }, { PPL::IEEE754_DOUBLE, "DOUBLE", -52 },
                                  { PPL::IBM_SINGLE, "IBM_SINGLE", -20 }, { PPL::IEEE754_QUAD, "QUAD", -112 }, { PPL::INTEL_DOUBLE_EXTENDED, "INTEL_DOUBLE_EXTENDED", -63 } };
    std::string site = "Linear_Form<" + tname + ">";
    for (size_t a = 0; a < n; ++a) for (size_t b = 0; b < n; ++b) for (size_t c = 0; c < n; ++c) {
      LF f(PPL::Variable(1)); f *= cm[c]; { LF g(PPL::Variable(0)); g *= cm[b]; f += g; } f += cm[a];
      const RI* want[3] = { &cr[a], &cr[b], &cr[c] };
      std::string fname = cn[a] + " + " + cn[b] + "*x0 + " + cn[c] + "*x1";
      RI cf[3];
      // construction itself: coefficient-wise enclosure (exact for these representable bounds)
      vf::count(CNT_LFOPS); vf::count(vf::CNT_TRANS);
      if (!read_form(f, cf)) { mach_error("menu form unreadable"); continue; }
      for (int d = 0; d < 3; ++d) if (!R::subset(*want[d], cf[d])) { vf::J in; in.str("format", tname).str("op", "construction").str("f1", fname); viol(site + "::operator*=", "enclosure", "none", in.done(), R::str(cf[d]), R::str(*want[d]), "coefficient of the constructed form does not enclose the requested interval"); }
      // relative_error for every analysed format: coefficient d must enclose max(|lo|,|hi|) * [-beta^-p, beta^-p]
      for (int fi = 0; fi < 6; ++fi) {
        LF re; f.relative_error(FR[fi].f, re); vf::count(CNT_LFOPS); vf::count(vf::CNT_TRANS);
        RI rc[3]; vf::J in; in.str("format", tname).str("op", "relative_error").str("analysed", FR[fi].name).str("f1", fname);
        if (!read_form(re, rc)) { viol(site + "::relative_error", "invariant", "none", in.done(), "NaN", "well-formed", "ill-formed result"); continue; }
        Q eps(1); mpq_div_2exp(eps.get_mpq_t(), eps.get_mpq_t(), (unsigned long)(-FR[fi].log2_relerr));
        for (int d = 0; d < 3; ++d) {
          Q m = abs(cf[d].lo.v) > abs(cf[d].hi.v) ? Q(abs(cf[d].lo.v)) : Q(abs(cf[d].hi.v));
          RI ref = R::mk(R::fin(-m * eps, false), R::fin(m * eps, false));
          if (!R::subset(ref, rc[d])) { viol(site + "::relative_error", "enclosure", FR[fi].f == PPL::IBM_SINGLE ? "analysed_format_IBM_SINGLE_base_16" : "none", in.done(), std::string(d == 0 ? "inhomogeneous term " : d == 1 ? "coefficient of x0 " : "coefficient of x1 ") + R::str(rc[d]), "encloses " + R::str(ref),
                 "documented: max(|a|,|b|) * [-beta^-p, beta^-p] per coefficient; the computed error term is too small"); break; }
          // and not grossly larger than documented (outward rounding only): within a factor 1 + 2^-20
          RI big = R::mk(R::fin(-m * eps * Q(1048577, 1048576) - FT<F>::toq(std::numeric_limits<F>::denorm_min()), false), R::fin(m * eps * Q(1048577, 1048576) + FT<F>::toq(std::numeric_limits<F>::denorm_min()), false));
          if (!R::subset(rc[d], big)) { viol(site + "::relative_error", "exact", "none", in.done(), R::str(rc[d]), "about " + R::str(ref), "the computed error term is larger than the documented one by more than outward rounding"); break; }
        }
      }
      // intervalize in every store: must enclose  i + c0*box(x0) + c1*box(x1)  computed exactly
      for (size_t k = 0; k < stores.size(); ++k) {
        FPI iv; vf::count(CNT_LFOPS); vf::count(vf::CNT_TRANS);
        if (!f.intervalize(stores[k]->oracle, iv)) continue;
        RI got, b0, b1; vf::J in; in.str("format", tname).str("op", "intervalize").str("f1", fname).str("store", stores[k]->name);
        if (!read_fp(iv, got)) { viol(site + "::intervalize", "invariant", "none", in.done(), "NaN", "well-formed", "NaN bound"); continue; }
        read_fp(stores[k]->oracle.box.get_interval(PPL::Variable(0)), b0); read_fp(stores[k]->oracle.box.get_interval(PPL::Variable(1)), b1);
        RI ref = R::add(cf[0], R::add(R::mul(cf[1], b0), R::mul(cf[2], b1)));
        if (!R::subset(ref, got)) viol(site + "::intervalize", "enclosure", "none", in.done(), R::str(got), "encloses " + R::str(ref), "intervalization does not enclose the exact interval evaluation of the form over the box");
      }
    }
    // coefficient-wise arithmetic on pairs of forms over a sub-menu, and scaling by every menu interval
    size_t sub[4] = { 0, 3, 5, 4 };   // [-3,1], [0,1], [2,2], [-1,0]
    std::vector<LF> fs; std::vector<std::string> fnames;
    for (int a = 0; a < 4; ++a) for (int b = 0; b < 4; ++b) for (int c = 0; c < 4; ++c) {
      LF f(PPL::Variable(1)); f *= cm[sub[c]]; { LF g(PPL::Variable(0)); g *= cm[sub[b]]; f += g; } f += cm[sub[a]];
      fs.push_back(f); fnames.push_back(cn[sub[a]] + " + " + cn[sub[b]] + "*x0 + " + cn[sub[c]] + "*x1");
    }
    for (size_t x = 0; x < fs.size(); ++x) {
      RI cx[3]; read_form(fs[x], cx);
      for (size_t y = 0; y < fs.size(); ++y) for (int o = 0; o < 2; ++o) {
        RI cy[3], cz[3]; read_form(fs[y], cy);
        LF z = o == 0 ? fs[x] + fs[y] : fs[x] - fs[y]; vf::count(CNT_LFOPS); vf::count(vf::CNT_TRANS);
        vf::J in; in.str("format", tname).str("op", o == 0 ? "operator+" : "operator-").str("f1", fnames[x]).str("f2", fnames[y]);
        if (!read_form(z, cz)) { viol(site + (o == 0 ? "::operator+" : "::operator-"), "invariant", "none", in.done(), "NaN", "well-formed", "ill-formed result"); continue; }
        for (int d = 0; d < 3; ++d) { RI ref = o == 0 ? R::add(cx[d], cy[d]) : R::sub(cx[d], cy[d]);
          if (!R::subset(ref, cz[d])) { viol(site + (o == 0 ? "::operator+" : "::operator-"), "enclosure", "none", in.done(), R::str(cz[d]), "encloses " + R::str(ref), "coefficient-wise interval sum/difference not enclosed"); break; } }
      }
      for (size_t k = 0; k < n; ++k) for (int o = 0; o < 2; ++o) {
        LF z = fs[x]; if (o == 0) z *= cm[k]; else z /= cm[k]; vf::count(CNT_LFOPS); vf::count(vf::CNT_TRANS);
        RI cz[3]; vf::J in; in.str("format", tname).str("op", o == 0 ? "operator*=" : "operator/=").str("f1", fnames[x]).str("k", cn[k]);
        if (!read_form(z, cz)) { viol(site + (o == 0 ? "::operator*=" : "::operator/="), "invariant", "none", in.done(), "NaN", "well-formed", "ill-formed result"); continue; }
        for (int d = 0; d < 3; ++d) { RI ref = o == 0 ? R::mul(cx[d], cr[k]) : R::div(cx[d], cr[k]);
          if (!R::subset(ref, cz[d])) { viol(site + (o == 0 ? "::operator*=" : "::operator/="), "enclosure", "none", in.done(), R::str(cz[d]), "encloses " + R::str(ref), "coefficient-wise interval product/quotient not enclosed"); break; } }
      }
    }
  }

  void run_lfops(bool thorough) {
    typedef std::numeric_limits<F> L;
    std::vector<LF> forms; std::vector<std::string> fn;
    FPI tenth = str_itv("0.1");
    { LF f(PPL::Variable(0)); forms.push_back(f); fn.push_back("x0"); }
    { LF f(PPL::Variable(0)); f *= tenth; LF g(PPL::Variable(1)); g *= mkitv(-1, 1); f += g; f += mkitv(3, 3); forms.push_back(f); fn.push_back("[0.1]*x0+[-1,1]*x1+3"); }
    { LF f(PPL::Variable(0)); f *= mkitv(-2, 1); f += mkitv((F)1e30, (F)1e30); forms.push_back(f); fn.push_back("[-2,1]*x0+1e30"); }
    { LF f(mkitv((F)0.5, (F)0.5)); forms.push_back(f); fn.push_back("0.5"); }
    { LF f(PPL::Variable(1)); f *= mkitv(-1, -1); f += mkitv(-L::denorm_min(), L::denorm_min()); forms.push_back(f); fn.push_back("-x1+[-dmin,dmin]"); }
    { LF f(PPL::Variable(1)); f *= mkitv(3, 3); LF g(PPL::Variable(0)); g *= mkitv((F)-0.5, (F)-0.25); f += g; forms.push_back(f); fn.push_back("[-0.5,-0.25]*x0+3*x1"); }
    if (thorough) { LF f(PPL::Variable(0)); f *= mkitv(L::max() / 2, L::max()); forms.push_back(f); fn.push_back("[max/2,max]*x0"); }
    std::vector<FPI> ks; std::vector<std::string> kn;
    ks.push_back(mkitv(2, 2)); kn.push_back("[2,2]"); ks.push_back(mkitv(-1, 3)); kn.push_back("[-1,3]"); ks.push_back(tenth); kn.push_back("[0.1]");
    ks.push_back(mkitv((F)1e30, (F)1e30)); kn.push_back("[1e30]"); ks.push_back(mkitv((F)-0.5, (F)-0.25)); kn.push_back("[-0.5,-0.25]");
    ks.push_back(mkitv(0, 0)); kn.push_back("[0,0]"); ks.push_back(mkitv(0, 1)); kn.push_back("[0,1]"); ks.push_back(mkitv(3, 3)); kn.push_back("[3,3]");
    // concrete stores: the points of all box stores
    std::vector<std::pair<F, F> > rho;
    for (size_t k = 0; k < stores.size(); ++k) if (!stores[k]->is_lf) rho.insert(rho.end(), stores[k]->conc.begin(), stores[k]->conc.end());
    std::string site = "Linear_Form<" + tname + ">";
    // f1 + f2, f1 - f2, -f, f += k, f -= k
    for (size_t a = 0; a < forms.size(); ++a) for (size_t b = 0; b < forms.size(); ++b) for (int o = 0; o < 4; ++o) {
      LF r; std::string nm;
      switch (o) { case 0: r = forms[a] + forms[b]; nm = "operator+"; break; case 1: r = forms[a] - forms[b]; nm = "operator-"; break;
        case 2: r = forms[a]; r += forms[b]; nm = "operator+="; break; default: r = forms[a]; r -= forms[b]; nm = "operator-="; break; }
      vf::count(CNT_LFOPS); vf::count(vf::CNT_TRANS);
      RI ca[3], cb[3], cr[3]; if (!read_form(forms[a], ca) || !read_form(forms[b], cb)) continue;
      vf::J in; in.str("format", tname).str("op", nm).str("f1", fn[a]).str("f2", fn[b]);
      if (!read_form(r, cr)) { viol(site + "::" + nm, "invariant", "none", in.done(), "NaN", "well-formed", "ill-formed result"); continue; }
      for (size_t c = 0; c < rho.size(); ++c) {
        F v[2] = { rho[c].first, rho[c].second };
        RI ea = eval_coefs(ca, v), eb = eval_coefs(cb, v), er = eval_coefs(cr, v);
        RI want = (o == 0 || o == 2) ? R::add(ea, eb) : R::sub(ea, eb);
        if (!R::subset(want, er)) { vf::J i2 = in; i2.str("x0", fstr(v[0])).str("x1", fstr(v[1])); viol(site + "::" + nm, "enclosure", "none", i2.done(), R::str(er), "superset of " + R::str(want), "sum/difference of the evaluated operands is not inside the evaluated result"); break; }
      }
    }
    for (size_t a = 0; a < forms.size(); ++a) {
      RI ca[3]; if (!read_form(forms[a], ca)) continue;
      { // negation
        LF r = -forms[a]; LF r2 = forms[a]; r2.negate(); vf::count(CNT_LFOPS, 2); vf::count(vf::CNT_TRANS, 2);
        RI cr[3], cr2[3]; vf::J in; in.str("format", tname).str("op", "negate").str("f1", fn[a]);
        if (read_form(r, cr) && read_form(r2, cr2)) for (size_t c = 0; c < rho.size(); ++c) { F v[2] = { rho[c].first, rho[c].second };
          RI want = R::neg(eval_coefs(ca, v));
          if (!R::subset(want, eval_coefs(cr, v)) || !R::subset(want, eval_coefs(cr2, v))) { viol(site + "::negate", "enclosure", "none", in.done(), R::str(eval_coefs(cr, v)), R::str(want), "negation"); break; } }
      }
      for (size_t k = 0; k < ks.size(); ++k) for (int o = 0; o < 4; ++o) {
        RI kk; read_fp(ks[k], kk);
        LF r = forms[a]; std::string nm;
        switch (o) { case 0: r *= ks[k]; nm = "operator*="; break; case 1: r /= ks[k]; nm = "operator/="; break; case 2: r += ks[k]; nm = "operator+=(interval)"; break; default: r -= ks[k]; nm = "operator-=(interval)"; break; }
        vf::count(CNT_LFOPS); vf::count(vf::CNT_TRANS);
        vf::J in; in.str("format", tname).str("op", nm).str("f1", fn[a]).str("k", kn[k]);
        RI cr[3]; if (!read_form(r, cr)) { viol(site + "::" + nm, "invariant", "none", in.done(), "NaN", "well-formed", "ill-formed result"); continue; }
        for (size_t c = 0; c < rho.size(); ++c) {
          F v[2] = { rho[c].first, rho[c].second };
          RI ea = eval_coefs(ca, v), er = eval_coefs(cr, v);
          RI want = o == 0 ? R::mul(ea, kk) : o == 1 ? R::div(ea, kk) : o == 2 ? R::add(ea, kk) : R::sub(ea, kk);
          if (!R::subset(want, er)) { vf::J i2 = in; i2.str("x0", fstr(v[0])).str("x1", fstr(v[1])); viol(site + "::" + nm, "enclosure", "none", i2.done(), R::str(er), "superset of " + R::str(want), "scaling of the evaluated operand is not inside the evaluated result"); break; }
        }
      }
      // relative_error: for every value v of the form and every rounding r(v) in the analysed format, r(v) - v lies in
      // eval(relative_error(f)) + absolute error
      if (!forms[a].overflows()) {
        LF re; forms[a].relative_error(FT<F>::fmt(), re); vf::count(CNT_LFOPS); vf::count(vf::CNT_TRANS);
        RI cr[3], ae; read_fp(PPL::compute_absolute_error<FPI>(FT<F>::fmt()), ae);
        vf::J in; in.str("format", tname).str("op", "relative_error").str("f1", fn[a]);
        if (!read_form(re, cr)) viol(site + "::relative_error", "invariant", "none", in.done(), "NaN", "well-formed", "ill-formed result");
        else for (size_t c = 0; c < rho.size(); ++c) {
          F v[2] = { rho[c].first, rho[c].second };
          RI ea = eval_coefs(ca, v), er = R::add(eval_coefs(cr, v), ae);
          if (ea.empty || ea.lo.inf || ea.hi.inf) continue;
          Q samples[3] = { ea.lo.v, ea.hi.v, (ea.lo.v + ea.hi.v) / 2 };
          bool bad = false;
          for (int sidx = 0; sidx < 3 && !bad; ++sidx) {
            if (abs(samples[sidx]) > FT<F>::toq(L::max())) continue;   // overflow: outside the statement
            F lo, hi; roundings(samples[sidx], lo, hi);
            Q d1q = FT<F>::toq(lo) - samples[sidx], d2q = FT<F>::toq(hi) - samples[sidx];
            if (!R::has(er, d1q) || !R::has(er, d2q)) { vf::J i2 = in; i2.str("x0", fstr(v[0])).str("x1", fstr(v[1])).str("value", R::qstr(samples[sidx]));
              viol(site + "::relative_error", "enclosure", "none", i2.done(), R::str(er), "contains rounding errors " + R::qstr(d1q) + " and " + R::qstr(d2q), "rounding error of a value of the form is outside relative_error + absolute error"); bad = true; }
          }
          if (bad) break;
        }
      }
      // intervalize in every box store
      for (size_t k = 0; k < stores.size(); ++k) {
        FPI iv; vf::count(CNT_LFOPS); vf::count(vf::CNT_TRANS);
        if (!forms[a].intervalize(stores[k]->oracle, iv)) continue;
        RI ri; vf::J in; in.str("format", tname).str("op", "intervalize").str("f1", fn[a]).str("store", stores[k]->name);
        if (!read_fp(iv, ri)) { viol(site + "::intervalize", "invariant", "none", in.done(), "NaN", "well-formed", "NaN bound"); continue; }
        for (size_t c = 0; c < stores[k]->conc.size(); ++c) {
          F v[2] = { stores[k]->conc[c].first, stores[k]->conc[c].second };
          RI ea = eval_coefs(ca, v);
          if (!R::subset(ea, ri)) { vf::J i2 = in; i2.str("x0", fstr(v[0])).str("x1", fstr(v[1])); viol(site + "::intervalize", "enclosure", "none", i2.done(), R::str(ri), "superset of " + R::str(ea), "value of the form in a concrete store of the box is outside the intervalization"); break; }
        }
      }
    }
  }
};

static long long json_num(const std::string& txt, const std::string& key, long long def) {
  size_t p = txt.find("\"" + key + "\""); if (p == std::string::npos) return def;
  p = txt.find(':', p); if (p == std::string::npos) return def; return atoll(txt.c_str() + p + 1);
}
static std::string json_str(const std::string& txt, const std::string& key) {
  size_t p = txt.find("\"" + key + "\""); if (p == std::string::npos) return "";
  p = txt.find(':', p); p = txt.find('"', p); if (p == std::string::npos) return ""; size_t e = txt.find('"', p + 1); return txt.substr(p + 1, e - p - 1);
}

int main(int argc, char** argv) {
  vf::Args args = vf::parse_args(argc, argv);
  vf::sink().open(args.out);
  std::string menu = args.opt("--menu", args.thorough() ? "thorough" : "quick");
  bool thorough = menu == "thorough";
  double t0 = vf::now_s();
  if (fegetround() != FE_UPWARD) fprintf(stderr, "[c12_linform] note: rounding mode at start is %d (FE_UPWARD=%d)\n", fegetround(), FE_UPWARD);
  World<float> wf; wf.init(thorough);
  World<double> wd; wd.init(thorough);

  if (!args.replay.empty()) {
    std::ifstream f(args.replay.c_str()); std::stringstream ss; ss << f.rdbuf(); std::string txt = ss.str();
    size_t ip = txt.find("\"input\""); std::string in = ip == std::string::npos ? txt : txt.substr(ip);
    std::string fmt = json_str(in, "format"); long long si = json_num(in, "si", 0), a = json_num(in, "a", -1), b = json_num(in, "b", 0), op = json_num(in, "op", -1);
    g_replay_mode = true;
    printf("replay: format=%s store=%lld a=%lld b=%lld op=%lld expr=%s\n", fmt.c_str(), si, a, b, op, json_str(in, "expr").c_str());
    #define REPLAY(W) { if (a >= 0) { Node* n = W.bin(OPS[op], W.subs[a], W.subs[b]); W.check_tree(n, (size_t)si, a, b, (int)op); } \
                        else if (a == -1) W.check_tree(W.d1[b], (size_t)si, a, b, -1); else { Node* n = W.neg(W.subs[b]); W.check_tree(n, (size_t)si, a, b, -1); } }
    if (json_str(in, "expr").empty()) { if (fmt == "float") { wf.run_lfops(thorough); wf.run_lfmenu(thorough); } else { wd.run_lfops(thorough); wd.run_lfmenu(thorough); } }
    else if (fmt == "float") REPLAY(wf) else REPLAY(wd)
    printf("replay: %lld implementation calls, %lld violations\n", vf::counter(vf::CNT_TRANS), vf::counter(vf::CNT_VIOL));
    return 0;
  }

  size_t nf = wf.stores.size() * wf.items_per_store(), nd = wd.stores.size() * wd.items_per_store();
  long long N = (long long)(nf + nd + 4);
  fprintf(stderr, "[c12_linform] menu=%s: %zu subtrees, %zu trees of depth<=1, %zu stores per format, %lld work items\n", menu.c_str(), wf.subs.size(), wf.d1.size(), wf.stores.size(), N);
  vf::pool().run(N, args.jobs,
    [&](long long item, long long sub_start) {
      if (item < (long long)nf) wf.run_item((size_t)item / wf.items_per_store(), (size_t)item % wf.items_per_store(), sub_start);
      else if (item < (long long)(nf + nd)) { size_t k = (size_t)item - nf; wd.run_item(k / wd.items_per_store(), k % wd.items_per_store(), sub_start); }
      else if (item == (long long)(nf + nd)) wf.run_lfops(thorough);
      else if (item == (long long)(nf + nd + 1)) wd.run_lfops(thorough);
      else if (item == (long long)(nf + nd + 2)) wf.run_lfmenu(thorough);
      else wd.run_lfmenu(thorough);
    },
    [&](long long item, long long sub, int sig, bool confirmed) {
      if (!confirmed) return;
      vf::J in; in.num("item", item).num("sub", sub).str("menu", menu);
      vf::report_violation("linearize", std::string("crash:") + vf::signame(sig), "none", in.done(), vf::signame(sig), "no crash", "linearisation crashed or hung on this expression");
    }, args, 60);

  bool exhaustive = vf::counter(vf::CNT_SKIPPED) == 0 && vf::counter(vf::CNT_REFCRASH) == 0;
  vf::J extra;
  extra.num("expression_tree_store_pairs", vf::counter(CNT_TREES)).num("linearize_calls", vf::counter(CNT_LIN_CALLS)).num("linearize_returned_false", vf::counter(CNT_LIN_FAILED))
       .num("fp_expression_class_linearize_calls", vf::counter(CNT_FPE_CALLS))
       .num("concrete_fpu_evaluations", vf::counter(CNT_CONC_EVALS)).num("concrete_evaluations_nonfinite_skipped", vf::counter(CNT_CONC_NONFINITE))
       .num("linear_form_operation_calls", vf::counter(CNT_LFOPS)).num("violation_records_total", vf::counter(vf::CNT_VIOL))
       .num("subtrees", (long long)wf.subs.size()).num("stores_per_format", (long long)wf.stores.size()).num("items_skipped_deadline", vf::counter(vf::CNT_SKIPPED));
  std::vector<std::string> samples;
  samples.push_back(vf::jstr("float: ((x0 * 0.1) + (x1 / 3)) in B2:x0=[0.1,0.3],x1=[-3,-1], 4 rounding modes"));
  samples.push_back(vf::jstr("double: ((x0 - x1) * (x0 + x1)) in L2:x1->2*x0+1"));
  vf::J st; st.str("t", "stats").num("states", vf::counter(CNT_TREES) > 0 ? vf::counter(CNT_TREES) : 1).num("transitions", vf::counter(vf::CNT_TRANS) > 0 ? vf::counter(vf::CNT_TRANS) : 1)
    .num("traces_validated_against_impl", vf::counter(CNT_CONC_EVALS)).boolean("exhaustive", exhaustive)
    .str("bound", std::string("menu '") + menu + "': all expression trees of depth <= 2 over {6 constants 0,1,-1,0.1,3,1e30; x0,x1; (fp) casts of the integers 3 and 2^24+1; unary -; + - * /}"
         + (thorough ? " (children of the root: every tree of depth <= 1)" : " (quick: children of the root restricted to leaves, casts, -x0, -x1 and binary subtrees over {x0,x1,0.1,3})")
         + "; abstract stores: " + (thorough ? "8" : "6") + " boxes + 3 linear-form stores; analysed/analyser formats float and double; both implementations (linearize() on C_Expr, Floating_Point_Expression classes); "
           "concrete stores = bounds, midpoints, one-ulp neighbours, zero per variable; 4 IEEE rounding modes; Linear_Form + - += -= negate, *= /= += -= interval, relative_error, intervalize over a menu of 6-7 forms x 8 intervals; exhaustive coefficient-level check of relative_error (6 analysed formats), intervalize, + - *= /= over all triples of a 10-13 interval coefficient menu incl. asymmetric zero-straddling ones; stores B8/L4 (B9/L5) with asymmetric zero-straddling intervals judged at end points, neighbours and worst-case rounding companions")
    .arr("samples", samples).raw("extra", extra.done()).dbl("wall_s", vf::now_s() - t0);
  vf::sink().line(st.done());
  return 0;
}

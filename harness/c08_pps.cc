// C08 for the finite powerset lifting: Pointset_Powerset<C_Polyhedron> (and <Grid>)
//   BHZ03_widening_assign<Certificate>(y, widen_fun)  with BHRZ03_Certificate / H79_Certificate / Grid_Certificate
//   BGP99_extrapolation_assign(y, widen_fun, max_disjuncts)
// A value is a *set of disjunct values* (the omega-reduced collection, order irrelevant); the order is the powerset
// (Hoare) order: every disjunct of the smaller element is contained in some disjunct of the larger one.
// See harness/c08_common.hh for the game and the oracle.
#include "harness/c08_common.hh"
#include "ref/rgrid.hh"
#include <deque>

using namespace c08;
using PPL::Variable; using PPL::Linear_Expression; using PPL::Coefficient; using PPL::C_Polyhedron; using PPL::Polyhedron; using PPL::Grid;

static Args ARGS;

// ------------------------------------------------------------------ base level: C polyhedra
struct BasePoly {
  typedef C_Polyhedron Elem; typedef Cell BVal; typedef Classes BSpace; typedef vf::CN Lim; typedef PPL::Constraint_System LimSys;
  static std::string name() { return "Pointset_Powerset<C_Polyhedron>"; }
  static void fill(C_Polyhedron& c, const C_Polyhedron& s) {     // faithful member-wise copy
    c.con_sys.assign_with_pending(s.con_sys); c.gen_sys.assign_with_pending(s.gen_sys);
    c.sat_c = s.sat_c; c.sat_g = s.sat_g; c.status = s.status; c.space_dim = s.space_dim;
  }
  static Cell bvalue(const C_Polyhedron& p, int dim) {
    C_Polyhedron c(0); fill(c, p);
    if (c.marked_empty()) return Cell::empty(dim);
    return cell_of(c.constraints(), dim);
  }
  static bool bempty(const Cell& c) { return ref::is_empty(c); }
  static bool bsubset(const Cell& a, const Cell& b) { return ref::subset(a, b); }
  static std::string btext(const Cell& c) { return cell_text(c); }
  static bool bimplied(const Cell& v, const vf::CN& c, int dim) { return ref::implies(v, c.row(dim)); }
  static Cell bmeet(const Cell& v, const vf::CN& c, int dim) { Cell w = v; if (!w.bot) w.rows.push_back(c.row(dim)); return w; }
  static std::string lim_text(const vf::CN& c) { return c.str(); }
  static PPL::Constraint_System lim_sys(const std::vector<vf::CN>& v) { PPL::Constraint_System cs; for (size_t i = 0; i < v.size(); ++i) cs.insert(v[i].ppl()); return cs; }
  // menu element = list of disjuncts, each a list of generators
  struct Spec { std::string name; std::vector<std::vector<GN> > d; };
  static std::vector<Spec> specs(int dim) {
    if (dim == 2) return {
      {"{point(0,0)}", {{GN('p', {0, 0})}}},
      {"{square[0,1]^2}", {{GN('p', {0, 0}), GN('p', {1, 0}), GN('p', {0, 1}), GN('p', {1, 1})}}},
      {"{point(3,0), point(0,3)}", {{GN('p', {3, 0})}, {GN('p', {0, 3})}}},
      {"{square[2,3]x[1,2]}", {{GN('p', {2, 1}), GN('p', {3, 1}), GN('p', {2, 2}), GN('p', {3, 2})}}},
      {"{segment(0,0)-(3,0)}", {{GN('p', {0, 0}), GN('p', {3, 0})}}},
      {"{square[0,2]^2, point(5,5)}", {{GN('p', {0, 0}), GN('p', {2, 0}), GN('p', {0, 2}), GN('p', {2, 2})}, {GN('p', {5, 5})}}},
      {"{ray(0,0)+(1,1)}", {{GN('p', {0, 0}), GN('r', {1, 1})}}},
      {"{point(-1,3)}", {{GN('p', {-1, 3})}}},
      {"{triangle(0,0)(4,0)(0,4), segment(5,0)-(6,0)}", {{GN('p', {0, 0}), GN('p', {4, 0}), GN('p', {0, 4})}, {GN('p', {5, 0}), GN('p', {6, 0})}}},
      {"{point(1/2,-2)}", {{GN('p', {1, -4}, 2)}}},
    };
    return {
      {"{point(0)}", {{GN('p', {0})}}}, {"{segment[0,3]}", {{GN('p', {0}), GN('p', {3})}}}, {"{point(-1), point(5)}", {{GN('p', {-1})}, {GN('p', {5})}}},
      {"{point(1/2)}", {{GN('p', {1}, 2)}}}, {"{segment[4,6], point(8)}", {{GN('p', {4}), GN('p', {6})}, {GN('p', {8})}}}, {"{ray>=7}", {{GN('p', {7}), GN('r', {1})}}},
      {"{point(-4)}", {{GN('p', {-4})}}},
    };
  }
  static C_Polyhedron* build(const std::vector<GN>& g, int dim) {
    PPL::Generator_System gs; for (size_t k = 0; k < g.size(); ++k) gs.insert(g[k].ppl());
    C_Polyhedron* p = new C_Polyhedron(dim, PPL::EMPTY); p->add_generators(gs); return p;
  }
  static Cell ref_of(const std::vector<GN>& g, int dim) { ref::Gens rg; for (size_t k = 0; k < g.size(); ++k) rg.push_back(g[k].gen(dim)); return ref::normalized(ref::from_gens_dd(rg, dim, false)); }
  // variants of one disjunct
  static C_Polyhedron* rebuilt(const C_Polyhedron& p, int how, int dim) {
    C_Polyhedron c(0); fill(c, p);
    if (how == 0) { C_Polyhedron* r = new C_Polyhedron(dim, PPL::UNIVERSE); r->add_constraints(c.minimized_constraints()); return r; }
    if (how == 1) { C_Polyhedron* r = new C_Polyhedron(dim, PPL::EMPTY); r->add_generators(c.minimized_generators()); return r; }
    // constraints with redundant weaker copies, reversed
    PPL::Constraint_System mcs = c.minimized_constraints();
    std::vector<PPL::Constraint> v; for (PPL::Constraint_System::const_iterator i = mcs.begin(); i != mcs.end(); ++i) v.push_back(*i);
    C_Polyhedron* r = new C_Polyhedron(dim, PPL::UNIVERSE);
    for (size_t i = v.size(); i-- > 0; ) { if (!v[i].is_equality()) r->add_constraint(Linear_Expression(v[i].expression()) + 1 >= 0); r->add_constraint(v[i]); }
    return r;
  }
  static const bool cert_compare_defect = true;
  static std::pair<long, long> bdims(const Cell& c) { PolyShape s = poly_shape(c); return std::make_pair((long)s.affdim, (long)s.lin); }
  static Cell bjoin(const Cell& a, const Cell& b) { return ref::normalized(ref::hull_closed(a, b)); }
  static std::vector<long> bmeasure(const Cell& c, bool bhrz03) {
    std::vector<long> v = bhrz03 ? measure_BHRZ03(c) : measure_H79(c);
    v.resize(8, bhrz03 ? 0 : 0);       // fixed width blocks (dim <= 2: at most 7 components)
    return v;
  }
  static std::vector<vf::CN> limits(int dim) {
    using ref::GE;
    if (dim == 2) return { CN(LE({-1, 0}, 3), GE), CN(LE({0, -1}, 4), GE), CN(LE({1, 0}, 1), GE), CN(LE({-1, -1}, 7), GE) };
    return { CN(LE({-1}, 3), GE), CN(LE({1}, 1), GE), CN(LE({-1}, 9), GE) };
  }
};

// ------------------------------------------------------------------ base level: grids
struct GridBClasses {
  std::deque<rg::RGrid> vals; std::unordered_map<std::string, int> ids;
  int classify(const rg::RGrid& g) { std::string k = g.str(); auto it = ids.find(k); if (it != ids.end()) return it->second; int id = (int)vals.size(); vals.push_back(g); ids[k] = id; return id; }
  const rg::RGrid& operator[](int id) const { return vals[id]; }
};
struct GCG { LE e; long m; GCG() : m(0) {} GCG(const LE& e_, long m_) : e(e_), m(m_) {}
  PPL::Congruence ppl() const { return (e.ppl() %= 0) / Coefficient(m); }
  rg::Cong ref(int n) const { rg::Vec a(n, rg::Q(0)); for (int i = 0; i < n && i < (int)e.a.size(); ++i) a[i] = e.a[i]; return rg::Cong(a, rg::Q(e.b), rg::Q(m)); }
  std::string str() const { return e.str() + (m == 0 ? "==0" : "=0 mod " + std::to_string(m)); } };
struct GGN { char t; std::vector<long> v; long d; GGN(char t_, std::initializer_list<long> v_, long d_ = 1) : t(t_), v(v_), d(d_) {}
  PPL::Grid_Generator ppl(int dim) const {
    Linear_Expression e; for (int i = 0; i < dim && i < (int)v.size(); ++i) if (v[i] != 0) e += Coefficient(v[i]) * Variable(i);
    if (dim > 0) e += 0 * Variable(dim - 1);
    return t == 'p' ? PPL::grid_point(e, Coefficient(d)) : t == 'q' ? PPL::parameter(e, Coefficient(d)) : PPL::grid_line(e); }
  rg::Vec vec(int n) const { rg::Vec r(n, rg::Q(0)); for (int i = 0; i < n && i < (int)v.size(); ++i) r[i] = (t == 'l') ? rg::Q(v[i]) : rg::mkq(v[i], d); return r; } };
struct BaseGrid {
  typedef Grid Elem; typedef rg::RGrid BVal; typedef GridBClasses BSpace; typedef GCG Lim; typedef PPL::Congruence_System LimSys;
  static std::string name() { return "Pointset_Powerset<Grid>"; }
  static void fill(Grid& c, const Grid& s) { c.con_sys = s.con_sys; c.gen_sys = s.gen_sys; c.status = s.status; c.space_dim = s.space_dim; c.dim_kinds = s.dim_kinds; }
  static rg::RGrid bvalue(const Grid& g0, int dim) {
    Grid g(0); fill(g, g0);
    if (g.marked_empty()) return rg::RGrid::bottom(dim);
    const PPL::Congruence_System& cs = g.congruences();
    rg::RGrid r = rg::RGrid::universe(dim);
    for (PPL::Congruence_System::const_iterator i = cs.begin(), e = cs.end(); i != e; ++i) {
      rg::Vec a(dim, rg::Q(0));
      for (int k = 0; k < dim && k < (int)i->space_dimension(); ++k) a[k] = to_q(i->coefficient(Variable(k)));
      r = rg::add_congruence(r, rg::Cong(a, to_q(i->inhomogeneous_term()), to_q(i->modulus())));
    }
    return r;
  }
  static bool bempty(const rg::RGrid& g) { return g.empty; }
  static bool bsubset(const rg::RGrid& a, const rg::RGrid& b) { return rg::subset(a, b); }
  static std::string btext(const rg::RGrid& g) { return g.str(); }
  static bool bimplied(const rg::RGrid& g, const GCG& c, int dim) {
    if (g.empty) return true;
    rg::Cong k = c.ref(dim);
    if (!k.holds(g.p)) return false;
    for (size_t j = 0; j < g.B.size(); ++j) if (!k.holds_dir(g.B[j], false)) return false;
    for (size_t j = 0; j < g.L.size(); ++j) if (!k.holds_dir(g.L[j], true)) return false;
    return true;
  }
  static rg::RGrid bmeet(const rg::RGrid& g, const GCG& c, int dim) { return rg::add_congruence(g, c.ref(dim)); }
  static std::string lim_text(const GCG& c) { return c.str(); }
  static PPL::Congruence_System lim_sys(const std::vector<GCG>& v) { PPL::Congruence_System cs; for (size_t i = 0; i < v.size(); ++i) cs.insert(v[i].ppl()); return cs; }
  struct Spec { std::string name; std::vector<std::vector<GGN> > d; };
  static std::vector<Spec> specs(int dim) {
    if (dim == 2) return {
      {"{point(0,0)}", {{GGN('p', {0, 0})}}},
      {"{point(4,0)}", {{GGN('p', {4, 0})}}},
      {"{point(6,0), point(0,3)}", {{GGN('p', {6, 0})}, {GGN('p', {0, 3})}}},
      {"{(0,0)+Z(0,2)}", {{GGN('p', {0, 0}), GGN('q', {0, 2})}}},
      {"{point(1,1)}", {{GGN('p', {1, 1})}}},
      {"{(1,0)+Z(2,0)+Z(0,2), point(1,1)}", {{GGN('p', {1, 0}), GGN('q', {2, 0}), GGN('q', {0, 2})}, {GGN('p', {1, 1})}}},
      {"{line (0,0)+Q(1,0)}", {{GGN('p', {0, 0}), GGN('l', {1, 0})}}},
      {"{(0,0)+Z(1,1)}", {{GGN('p', {0, 0}), GGN('q', {1, 1})}}},
    };
    return {
      {"{point(0)}", {{GGN('p', {0})}}}, {"{point(4)}", {{GGN('p', {4})}}}, {"{point(6), point(1)}", {{GGN('p', {6})}, {GGN('p', {1})}}},
      {"{0+3Z}", {{GGN('p', {0}), GGN('q', {3})}}}, {"{point(1)}", {{GGN('p', {1})}}}, {"{1+2Z, point(0)}", {{GGN('p', {1}), GGN('q', {2})}, {GGN('p', {0})}}},
    };
  }
  static Grid* build(const std::vector<GGN>& g, int dim) { PPL::Grid_Generator_System gs; for (size_t k = 0; k < g.size(); ++k) gs.insert(g[k].ppl(dim)); return new Grid(gs); }
  static rg::RGrid ref_of(const std::vector<GGN>& g, int dim) {
    rg::Mat pts, params, lines;
    for (size_t k = 0; k < g.size(); ++k) (g[k].t == 'p' ? pts : g[k].t == 'q' ? params : lines).push_back(g[k].vec(dim));
    return rg::from_generators(dim, pts, params, lines);
  }
  static Grid* rebuilt(const Grid& p, int how, int dim) {
    Grid c(0); fill(c, p);
    if (how == 0) { Grid* r = new Grid(dim, PPL::UNIVERSE); r->add_congruences(c.minimized_congruences()); return r; }
    if (how == 1) return new Grid(c.minimized_grid_generators());
    Grid* r = new Grid(dim, PPL::UNIVERSE); r->add_congruences(c.minimized_congruences()); (void)r->grid_generators(); (void)r->is_bounded(); return r;
  }
  static const bool cert_compare_defect = false;
  static std::pair<long, long> bdims(const rg::RGrid& g) { return std::make_pair((long)g.rank(), (long)g.L.size()); }
  static rg::RGrid bjoin(const rg::RGrid& a, const rg::RGrid& b) { return rg::join(a, b); }
  static std::vector<long> bmeasure(const rg::RGrid& g, bool) {
    std::vector<long> v{0, -(long)g.rank(), (long)g.B.size()}; v.resize(8, 0); return v;
  }
  static std::vector<GCG> limits(int dim) {
    if (dim == 2) return { GCG(LE({1, 0}, 0), 2), GCG(LE({0, 1}, 0), 1), GCG(LE({1, -1}, 0), 2), GCG(LE({1, 0}, 0), 0) };
    return { GCG(LE({1}, 0), 2), GCG(LE({1}, 0), 1), GCG(LE({1}, 0), 3) };
  }
};

// ------------------------------------------------------------------ the powerset value space
struct PSVal { std::vector<int> d; };     // sorted ids of the maximal disjunct values
template <typename B>
struct PSSpace {
  typename B::BSpace base;
  std::deque<PSVal> vals; std::map<std::vector<int>, int> ids;
  int classify(const PSVal& v) { auto it = ids.find(v.d); if (it != ids.end()) return it->second; int id = (int)vals.size(); vals.push_back(v); ids[v.d] = id; return id; }
  const PSVal& operator[](int id) const { return vals[id]; }
  size_t size() const { return vals.size(); }
};

template <typename B>
struct PSDom {
  typedef PPL::Pointset_Powerset<typename B::Elem> PS;
  typedef PS Obj; typedef PSVal Val; typedef PSSpace<B> Space; typedef typename B::Lim Lim; typedef typename B::LimSys LimSys;
  typedef typename B::Elem Elem; typedef typename B::BVal BVal;
  std::string name; int dim; bool nnc; int menu_limit;
  Space* sp;       // the value space of the game (set by the driver: values refer to base classes)
  PSDom(int dim_, int ml) : name(B::name()), dim(dim_), nnc(false), menu_limit(ml), sp(0) {}

  PS* clone(const PS& s) const {
    PS* c = new PS(dim, PPL::EMPTY);
    for (typename PS::const_iterator i = s.sequence.begin(), e = s.sequence.end(); i != e; ++i) {
      Elem fresh(0); B::fill(fresh, i->pointset());
      PPL::Determinate<Elem> dt(fresh);              // the copy constructor may normalise: overwrite with the faithful copy
      B::fill(dt.pointset(), i->pointset());
      c->sequence.push_back(dt);
    }
    c->reduced = s.reduced;
    return c;
  }
  std::string dump(const PS& s) const { return dump_of(s); }
  // reference omega-reduction of a list of base values
  PSVal reduce(const std::vector<BVal>& vs) const {
    std::vector<int> ids;
    for (size_t i = 0; i < vs.size(); ++i) if (!B::bempty(vs[i])) ids.push_back(sp->base.classify(vs[i]));
    std::sort(ids.begin(), ids.end()); ids.erase(std::unique(ids.begin(), ids.end()), ids.end());
    std::vector<int> keep;
    for (size_t i = 0; i < ids.size(); ++i) {
      bool dominated = false;
      for (size_t j = 0; j < ids.size() && !dominated; ++j) if (i != j && B::bsubset(sp->base[ids[i]], sp->base[ids[j]])) dominated = true;
      if (!dominated) keep.push_back(ids[i]);
    }
    PSVal v; v.d = keep; return v;
  }
  PSVal value(const PS& s) const {
    std::vector<BVal> vs;
    for (typename PS::const_iterator i = s.sequence.begin(), e = s.sequence.end(); i != e; ++i) vs.push_back(B::bvalue(i->pointset(), dim));
    return reduce(vs);
  }
  void join(PS& a, const PS& b) const { a.upper_bound_assign(b); }
  bool ok(const PS& s) const { return s.OK(); }
  PS* empty() const { return new PS(dim, PPL::EMPTY); }
  // BGP99_extrapolation_assign starts with pairwise_reduce() and collapse(max_disjuncts), which merge disjuncts greedily in
  // sequence order (documented as such; the operator is an extrapolation): its result may depend on the order of the disjuncts.
  // The BHZ03 widening "possibly applies pairwise merging" (doc/definitions.dox, Certificate-Based Widenings), and the pairwise merge
  // is specified by its postcondition only (no two disjuncts of the result have an exact upper bound): which pairs are merged
  // depends on the order of the sequence.  A different *order* of the disjuncts may therefore give a different result; this is
  // counted, not reported.  Representations that keep the order (or differ in redundant disjuncts) must give the same value.
  // "Depends only on the values of the arguments" therefore means for a powerset: the result (as a set of disjunct values) is a
  // function of the omega-reduced SEQUENCE of disjunct values of the two arguments - independent of how each disjunct is described
  // and of redundant disjuncts - and for a permuted sequence it is some upper bound (checked) allowed by the pairwise-merge
  // postcondition.  Stand-alone: {Q1 | P2 | P3} in the orders (1,2,3) and (3,2,1): pairwise_reduce() gives different pairs merged.
  std::string repdep_caveat(const std::string& op, const PSVal&, const PSVal&, const std::string& xn, const std::string& yn, const std::string& known_defect_trigger) const {
    if (op.compare(0, 5, "BGP99") == 0) return "bgp99_pairwise_reduce_and_collapse_follow_the_sequence_order";
    // (the known-defect predicate "argument not omega-reduced" no longer takes precedence: that defect is fixed (fecf848), and a
    // reordered sequence is order-dependent whether or not it also carries a redundant disjunct; the order-preserving pairs
    // natural / with-duplicate / rebuilt still have to agree exactly, which is what detects a regression of that fix)
    (void)known_defect_trigger;
    auto reorders = [](const std::string& n) { return n.compare(0, 8, "reversed") == 0 || n.compare(0, 7, "rotated") == 0; };
    return (reorders(xn) || reorders(yn)) ? "pairwise_merge_specified_up_to_the_order_of_the_disjuncts" : "";
  }
  bool has_redundant_disjunct(const PS& s) const {
    size_t raw = 0;
    for (typename PS::Sequence::const_iterator i = s.sequence.begin(), e = s.sequence.end(); i != e; ++i) if (!B::bempty(B::bvalue(i->pointset(), dim))) ++raw;
    return raw != value(s).d.size();
  }
  // known defect: BHZ03_widening_assign does not omega-reduce its arguments (see known_findings.d/C08.json)
  std::string repdep_trigger(const PS& xnat, const PS& ynat, const PS& xo, const PS& yo) const {
    if (has_redundant_disjunct(xnat) || has_redundant_disjunct(ynat) || has_redundant_disjunct(xo) || has_redundant_disjunct(yo)) return "argument_not_omega_reduced";
    return "none";
  }
  bool caveat_accepts(const std::string&, const PS&, const PS&, const PSVal&) const { return true; }
  std::string limited_trigger(const std::string&, const PS&, const std::vector<Lim>&, const std::vector<bool>&) const { return "none"; }

  std::string text(const PSVal& v) const {
    if (v.d.empty()) return "{}";
    std::string s = "{ ";
    for (size_t i = 0; i < v.d.size(); ++i) { if (i) s += "  |  "; s += B::btext(sp->base[v.d[i]]); }
    return s + " }";
  }
  bool vempty(const PSVal& v) const { return v.d.empty(); }
  // powerset (Hoare) order
  bool vsubset(const PSVal& a, const PSVal& b) const {
    for (size_t i = 0; i < a.d.size(); ++i) {
      bool found = false;
      for (size_t j = 0; j < b.d.size() && !found; ++j) if (a.d[i] == b.d[j] || B::bsubset(sp->base[a.d[i]], sp->base[b.d[j]])) found = true;
      if (!found) return false;
    }
    return true;
  }
  std::string witness_outside(const PSVal& a, const PSVal& b) const {
    for (size_t i = 0; i < a.d.size(); ++i) {
      bool found = false;
      for (size_t j = 0; j < b.d.size() && !found; ++j) if (B::bsubset(sp->base[a.d[i]], sp->base[b.d[j]])) found = true;
      if (!found) return "disjunct " + B::btext(sp->base[a.d[i]]) + " of the newer argument is contained in no disjunct of the result";
    }
    return "";
  }
  std::string lim_text(const Lim& c) const { return B::lim_text(c); }
  bool lim_implied(const PSVal& v, const Lim& c) const { for (size_t i = 0; i < v.d.size(); ++i) if (!B::bimplied(sp->base[v.d[i]], c, dim)) return false; return true; }
  PSVal lim_meet(const PSVal& v, const std::vector<Lim>& kept) const {
    std::vector<BVal> vs;
    for (size_t i = 0; i < v.d.size(); ++i) { BVal w = sp->base[v.d[i]]; for (size_t k = 0; k < kept.size(); ++k) w = B::bmeet(w, kept[k], dim); vs.push_back(w); }
    return reduce(vs);
  }
  LimSys lim_sys(const std::vector<Lim>& v) const { return B::lim_sys(v); }
  bool bounded_box(const PSVal&, const PSVal&, PSVal&) const { return false; }
  PSVal vmeet(const PSVal& a, const PSVal&) const { return a; }

  void menu(std::vector<MenuItemT<PS, PSVal> >& out) const {
    std::vector<typename B::Spec> sp_ = B::specs(dim);
    for (size_t i = 0; i < sp_.size(); ++i) {
      if ((int)out.size() >= menu_limit) break;
      MenuItemT<PS, PSVal> m; m.name = sp_[i].name;
      PS* ps = new PS(dim, PPL::EMPTY);
      std::vector<BVal> vs;
      for (size_t k = 0; k < sp_[i].d.size(); ++k) { std::unique_ptr<Elem> e(B::build(sp_[i].d[k], dim)); ps->add_disjunct(*e); vs.push_back(B::ref_of(sp_[i].d[k], dim)); }
      m.obj.reset(ps); m.cell = reduce(vs); m.cls = -1;
      out.push_back(m);
    }
  }
  void reps(const PS& natural, const PSVal& value, std::vector<RepT<PS> >& out) const {
    auto add = [&](const std::string& n, PS* p) { RepT<PS> r; r.name = n; r.obj.reset(p); out.push_back(r); };
    if (value.d.empty()) { add("empty-collection", new PS(dim, PPL::EMPTY)); return; }
    std::unique_ptr<PS> c(clone(natural));
    c->omega_reduce();
    std::vector<const Elem*> ds;
    for (typename PS::const_iterator i = c->begin(), e = c->end(); i != e; ++i) ds.push_back(&i->pointset());
    { PS* p = new PS(dim, PPL::EMPTY); for (size_t i = 0; i < ds.size(); ++i) { std::unique_ptr<Elem> e(B::rebuilt(*ds[i], 0, dim)); p->add_disjunct(*e); } add("rebuilt-from-constraints", p); }
    { PS* p = new PS(dim, PPL::EMPTY); for (size_t i = ds.size(); i-- > 0; ) { std::unique_ptr<Elem> e(B::rebuilt(*ds[i], 1, dim)); p->add_disjunct(*e); } add("reversed-from-generators", p); }
    { PS* p = new PS(dim, PPL::EMPTY); for (size_t i = 0; i < ds.size(); ++i) { std::unique_ptr<Elem> e(B::rebuilt(*ds[(i + 1) % ds.size()], 2, dim)); p->add_disjunct(*e); } add("rotated-redundant-descriptions", p); }
    { // a subsumed duplicate first, not omega-reduced
      PS* p = new PS(dim, PPL::EMPTY);
      { std::unique_ptr<Elem> e(B::rebuilt(*ds[0], 1, dim)); p->add_disjunct(*e); }
      for (size_t i = 0; i < ds.size(); ++i) { std::unique_ptr<Elem> e(B::rebuilt(*ds[i], 0, dim)); p->add_disjunct(*e); }
      add("with-duplicate-disjunct-not-omega-reduced", p);
    }
    { PS* p = clone(*c); (void)p->size(); for (typename PS::const_iterator i = p->begin(), e = p->end(); i != e; ++i) (void)i->pointset().is_empty(); add("omega-reduced+observers", p); }
  }

  // the library's certificate relation of the BHZ03 framework: hull certificate, then multiset of disjunct certificates
  template <typename Cert>
  static int ps_cert(const PS& older, const PS& result, int dim) {
    if (older.size() == 0) return 1;
    Elem oh(dim, PPL::EMPTY), rh(dim, PPL::EMPTY);
    for (typename PS::const_iterator i = older.begin(); i != older.end(); ++i) oh.upper_bound_assign(i->pointset());
    for (typename PS::const_iterator i = result.begin(); i != result.end(); ++i) rh.upper_bound_assign(i->pointset());
    Cert oc(oh);
    int h = oc.compare(rh);
    if (h != 0) return h;
    std::map<Cert, typename PS::size_type, typename Cert::Compare> ms;
    older.collect_certificates(ms);
    return result.is_cert_multiset_stabilizing(ms) ? 1 : 0;
  }
  // independent BHZ03 certificate: (measure of the hull of the disjuncts, multiset of the disjunct measures in the multiset order);
  // encoded as one vector: hull block, then the disjunct blocks in decreasing order, then a terminator smaller than every block
  typename B::BVal hull_of(const PSVal& v) const {
    typename B::BVal h = sp->base[v.d[0]];
    for (size_t i = 1; i < v.d.size(); ++i) h = B::bjoin(h, sp->base[v.d[i]]);
    return h;
  }
  std::vector<long> ps_measure(const PSVal& v, bool fine) const {
    if (v.d.empty()) return std::vector<long>(1, 1000000);
    std::vector<long> out = B::bmeasure(hull_of(v), fine);
    std::vector<std::vector<long> > ms;
    for (size_t i = 0; i < v.d.size(); ++i) ms.push_back(B::bmeasure(sp->base[v.d[i]], fine));
    std::sort(ms.begin(), ms.end(), [](const std::vector<long>& a, const std::vector<long>& b) { return lexcmp(a, b) > 0; });
    for (size_t i = 0; i < ms.size(); ++i) out.insert(out.end(), ms[i].begin(), ms[i].end());
    out.push_back(-1000000);
    return out;
  }
  // known defects that can make the BHZ03 certificate fail to decrease (see known_findings.d/C08.json): arguments that are not
  // omega-reduced; Certificate-Certificate comparison inverted on the affine / lineality dimension (polyhedra only)
  std::string cert_trig(const PS& xnat, const PS& ynat, const PSVal& a, const PSVal& b, const PSVal& c) const {
    if (has_redundant_disjunct(xnat) || has_redundant_disjunct(ynat)) return "argument_not_omega_reduced";
    std::set<std::pair<long, long> > dims;
    const PSVal* vs[3] = {&a, &b, &c};
    for (int k = 0; k < 3; ++k) for (size_t i = 0; i < vs[k]->d.size(); ++i) dims.insert(B::bdims(sp->base[vs[k]->d[i]]));
    return (B::cert_compare_defect && dims.size() > 1) ? "disjuncts_of_different_affine_or_lineality_dimension" : "none";
  }
  void ops(std::vector<OpDefT<PSDom<B> > >& out) const;
  std::vector<Lim> limits() const { return B::limits(dim); }
};

template <> void PSDom<BasePoly>::ops(std::vector<OpDefT<PSDom<BasePoly> > >& out) const {
  typedef OpDefT<PSDom<BasePoly> > O;
  int dm = dim;
  {
    O o; o.name = "BHZ03_widening_assign<BHRZ03_Certificate>(BHRZ03_widening_assign)"; o.site = "Pointset_Powerset<C_Polyhedron>::BHZ03_widening_assign<BHRZ03_Certificate,BHRZ03>"; o.tokens = false;
    o.plain = [](PS& n, const PS& x, unsigned*) { n.BHZ03_widening_assign<PPL::BHRZ03_Certificate>(x, PPL::widen_fun_ref(&Polyhedron::BHRZ03_widening_assign)); };
    o.limited_name = "BHZ03_widening_assign<BHRZ03_Certificate>(limited_BHRZ03_extrapolation_assign, cs)";
    o.limited = [](PS& n, const PS& x, const PPL::Constraint_System& cs, unsigned*) { n.BHZ03_widening_assign<PPL::BHRZ03_Certificate>(x, PPL::widen_fun_ref(&Polyhedron::limited_BHRZ03_extrapolation_assign, cs)); };
    o.limited_compare_with_plain = false;
    o.libcert_name = "BHZ03 certificate (hull BHRZ03_Certificate, multiset of BHRZ03_Certificate)";
    o.cert_only_when_newer_differs = true; o.cert_trigger = [this](const PS& xn, const PS& yn, const PSVal& a, const PSVal& b, const PSVal& c) { return cert_trig(xn, yn, a, b, c); };
    o.measure = [this](const PSVal& v) { return ps_measure(v, true); };
    o.libcert = [dm](const PS& x, const PS& r) { return ps_cert<PPL::BHRZ03_Certificate>(x, r, dm); };
    out.push_back(o);
  }
  {
    O o; o.name = "BHZ03_widening_assign<H79_Certificate>(H79_widening_assign)"; o.site = "Pointset_Powerset<C_Polyhedron>::BHZ03_widening_assign<H79_Certificate,H79>"; o.tokens = false;
    o.plain = [](PS& n, const PS& x, unsigned*) { n.BHZ03_widening_assign<PPL::H79_Certificate>(x, PPL::widen_fun_ref(&Polyhedron::H79_widening_assign)); };
    o.limited_name = "BHZ03_widening_assign<H79_Certificate>(limited_H79_extrapolation_assign, cs)";
    o.limited = [](PS& n, const PS& x, const PPL::Constraint_System& cs, unsigned*) { n.BHZ03_widening_assign<PPL::H79_Certificate>(x, PPL::widen_fun_ref(&Polyhedron::limited_H79_extrapolation_assign, cs)); };
    o.limited_compare_with_plain = false;
    o.libcert_name = "BHZ03 certificate (hull H79_Certificate, multiset of H79_Certificate)";
    o.cert_only_when_newer_differs = true; o.cert_trigger = [this](const PS& xn, const PS& yn, const PSVal& a, const PSVal& b, const PSVal& c) { return cert_trig(xn, yn, a, b, c); };
    o.measure = [this](const PSVal& v) { return ps_measure(v, false); };
    o.libcert = [dm](const PS& x, const PS& r) { return ps_cert<PPL::H79_Certificate>(x, r, dm); };
    out.push_back(o);
  }
  {
    O o; o.name = "BHZ03_widening_assign<BHRZ03_Certificate>(H79_widening_assign)"; o.site = "Pointset_Powerset<C_Polyhedron>::BHZ03_widening_assign<BHRZ03_Certificate,H79>"; o.tokens = false;
    o.plain = [](PS& n, const PS& x, unsigned*) { n.BHZ03_widening_assign<PPL::BHRZ03_Certificate>(x, PPL::widen_fun_ref(&Polyhedron::H79_widening_assign)); };
    o.libcert_name = "BHZ03 certificate (hull BHRZ03_Certificate, multiset of BHRZ03_Certificate)";
    o.cert_only_when_newer_differs = true; o.cert_trigger = [this](const PS& xn, const PS& yn, const PSVal& a, const PSVal& b, const PSVal& c) { return cert_trig(xn, yn, a, b, c); };
    o.measure = [this](const PSVal& v) { return ps_measure(v, true); };
    o.libcert = [dm](const PS& x, const PS& r) { return ps_cert<PPL::BHRZ03_Certificate>(x, r, dm); };
    out.push_back(o);
  }
  for (unsigned maxd : {0u, 2u}) {
    O o; o.name = "BGP99_extrapolation_assign(H79_widening_assign, max_disjuncts=" + std::to_string(maxd) + ")"; o.site = "Pointset_Powerset<C_Polyhedron>::BGP99_extrapolation_assign"; o.tokens = false; o.widening = false;
    o.plain = [maxd](PS& n, const PS& x, unsigned*) { n.BGP99_extrapolation_assign(x, PPL::widen_fun_ref(&Polyhedron::H79_widening_assign), maxd); };
    out.push_back(o);
  }
}
template <> void PSDom<BaseGrid>::ops(std::vector<OpDefT<PSDom<BaseGrid> > >& out) const {
  typedef OpDefT<PSDom<BaseGrid> > O;
  int dm = dim;
  {
    O o; o.name = "BHZ03_widening_assign<Grid_Certificate>(congruence_widening_assign)"; o.site = "Pointset_Powerset<Grid>::BHZ03_widening_assign<Grid_Certificate,congruence>"; o.tokens = false;
    o.plain = [](PS& n, const PS& x, unsigned*) { n.BHZ03_widening_assign<PPL::Grid_Certificate>(x, PPL::widen_fun_ref(&Grid::congruence_widening_assign)); };
    o.limited_name = "BHZ03_widening_assign<Grid_Certificate>(limited_congruence_extrapolation_assign, cgs)";
    o.limited = [](PS& n, const PS& x, const PPL::Congruence_System& cs, unsigned*) { n.BHZ03_widening_assign<PPL::Grid_Certificate>(x, PPL::widen_fun_ref(&Grid::limited_congruence_extrapolation_assign, cs)); };
    o.limited_compare_with_plain = false;
    o.libcert_name = "BHZ03 certificate (hull Grid_Certificate, multiset of Grid_Certificate)";
    o.cert_only_when_newer_differs = true; o.cert_trigger = [this](const PS& xn, const PS& yn, const PSVal& a, const PSVal& b, const PSVal& c) { return cert_trig(xn, yn, a, b, c); };
    o.measure = [this](const PSVal& v) { return ps_measure(v, false); };
    o.libcert = [dm](const PS& x, const PS& r) { return ps_cert<PPL::Grid_Certificate>(x, r, dm); };
    out.push_back(o);
  }
  {
    O o; o.name = "BHZ03_widening_assign<Grid_Certificate>(generator_widening_assign)"; o.site = "Pointset_Powerset<Grid>::BHZ03_widening_assign<Grid_Certificate,generator>"; o.tokens = false;
    o.plain = [](PS& n, const PS& x, unsigned*) { n.BHZ03_widening_assign<PPL::Grid_Certificate>(x, PPL::widen_fun_ref(&Grid::generator_widening_assign)); };
    o.libcert_name = "BHZ03 certificate (hull Grid_Certificate, multiset of Grid_Certificate)";
    o.cert_only_when_newer_differs = true; o.cert_trigger = [this](const PS& xn, const PS& yn, const PSVal& a, const PSVal& b, const PSVal& c) { return cert_trig(xn, yn, a, b, c); };
    o.measure = [this](const PSVal& v) { return ps_measure(v, false); };
    o.libcert = [dm](const PS& x, const PS& r) { return ps_cert<PPL::Grid_Certificate>(x, r, dm); };
    out.push_back(o);
  }
  {
    O o; o.name = "BGP99_extrapolation_assign(congruence_widening_assign, max_disjuncts=2)"; o.site = "Pointset_Powerset<Grid>::BGP99_extrapolation_assign"; o.tokens = false; o.widening = false;
    o.plain = [](PS& n, const PS& x, unsigned*) { n.BGP99_extrapolation_assign(x, PPL::widen_fun_ref(&Grid::congruence_widening_assign), 2); };
    out.push_back(o);
  }
}

// ------------------------------------------------------------------ driver
struct PsRunner {
  virtual ~PsRunner() {}
  virtual size_t items() const = 0;
  virtual void run(long long i, long long sub_start) = 0;
  virtual void crash(long long i, long long sub, int sig, bool confirmed) = 0;
  virtual void finish(long& states, long& edges, bool& closed, std::vector<std::string>& per_op, std::vector<std::string>& samples) = 0;
};
template <typename B> struct PsRunnerT : PsRunner {
  PSDom<B> dom; Game<PSDom<B> > game;
  PsRunnerT(int dim, int ml, int base, int depth, bool full, double t0) : dom(dim, ml), game(dom, ARGS, base) {
    dom.sp = &game.CL;
    game.max_depth = depth; game.limit_cap = atoi(ARGS.opt("--limits", ARGS.thorough() ? "0" : "4").c_str()); game.rep_mode = full ? 1 : 0;
    game.phase_a(); game.make_items();
    for (size_t oi = 0; oi < game.G.size(); ++oi)
      fprintf(stderr, "[c08_pps] %s dim %d %s: states=%zu edges=%zu closed=%d depth=%d classes=%zu (%.1fs)\n", dom.name.c_str(), dim,
              game.OPS[oi].name.c_str(), game.G[oi].nodes.size(), game.G[oi].edges.size(), (int)game.G[oi].closed, game.G[oi].depth_done, game.CL.size(), now_s() - t0);
  }
  size_t items() const { return game.ITEMS.size(); }
  void run(long long i, long long s) { game.run_item(i, s); }
  void crash(long long i, long long sub, int sig, bool c) { game.on_crash(i, sub, sig, c); }
  void finish(long& states, long& edges, bool& closed, std::vector<std::string>& per_op, std::vector<std::string>& samples) {
    typename Game<PSDom<B> >::Summary s = game.finish();
    states += s.states; edges += s.edges; closed = closed && s.all_closed;
    per_op.insert(per_op.end(), s.per_op.begin(), s.per_op.end());
    for (size_t i = 0; i < s.samples.size() && i < 2; ++i) samples.push_back(s.samples[i]);
  }
};

int c08_pps_main(int argc, char** argv) {
  ARGS = parse_args(argc, argv);
  sink().open(ARGS.out);
  double t0 = now_s();
  std::string bases = ARGS.opt("--bases", "poly,grid");
  std::string dims = ARGS.opt("--dims", "1,2");
  int depth = atoi(ARGS.opt("--depth", ARGS.thorough() ? "6" : "6").c_str());
  int menu_limit = atoi(ARGS.opt("--menu", ARGS.thorough() ? "8" : "6").c_str());
  bool full = ARGS.opt("--reps", ARGS.thorough() ? "full" : "star") == "full";
  std::vector<std::unique_ptr<PsRunner> > rs;
  int base = 0;
  for (int dim = 1; dim <= 2; ++dim) {
    if (dims.find(char('0' + dim)) == std::string::npos) continue;
    if (bases.find("poly") != std::string::npos) { rs.emplace_back(new PsRunnerT<BasePoly>(dim, menu_limit, base, depth, full, t0)); base += 5; }
    if (bases.find("grid") != std::string::npos) { rs.emplace_back(new PsRunnerT<BaseGrid>(dim, menu_limit, base, depth, full, t0)); base += 3; }
  }
  double ta = now_s() - t0;
  std::vector<std::pair<int, int> > items;
  for (size_t gi = 0; gi < rs.size(); ++gi) for (size_t i = 0; i < rs[gi]->items(); ++i) items.push_back(std::make_pair((int)gi, (int)i));
  { unsigned long s = 12345; for (size_t i = items.size(); i > 1; --i) { s = s * 6364136223846793005UL + 1442695040888963407UL; std::swap(items[i - 1], items[(s >> 33) % i]); } }
  Pool::Fn fn = [&](long long item, long long sub_start) { rs[items[item].first]->run(items[item].second, sub_start); };
  Pool::CrashFn cf = [&](long long item, long long sub, int sig, bool confirmed) { rs[items[item].first]->crash(items[item].second, sub, sig, confirmed); };
  limit_memory(6ULL << 30);
  pool().run((long long)items.size(), ARGS.jobs, fn, cf, ARGS, 120);
  bool complete = counter(CNT_SKIPPED) == 0 && counter(CNT_REFCRASH) == 0;
  long states = 0, edges = 0; bool all_closed = true;
  std::vector<std::string> per_op, samples;
  for (size_t gi = 0; gi < rs.size(); ++gi) rs[gi]->finish(states, edges, all_closed, per_op, samples);
  if (samples.size() > 6) samples.resize(6);
  J extra; extra.arr("graphs", per_op).boolean("all_graphs_closed", all_closed).num("menu_size_limit", menu_limit).str("representation_pairs", full ? "full" : "star")
    .dbl("phaseA_s", ta).num("items_skipped_by_deadline", counter(CNT_SKIPPED)).num("cases_skipped_oracle_resource_limit", counter(CNT_REFCRASH))
    .num("violation_records", counter(CNT_VIOL));
  J st; st.str("t", "stats").num("states", std::max(1L, states)).num("transitions", std::max(1LL, (long long)counter(CNT_TRANS)))
    .num("traces_validated_against_impl", counter(CNT_TRANS)).boolean("exhaustive", complete)
    .str("bound", "powersets over " + bases + ", dims " + dims + ", menu of <= " + std::to_string(menu_limit) + " increments, every start element, closure or depth " + std::to_string(depth) + ", representation pairs: " + (full ? "full" : "star") + ", limiting subsets of size <= 2")
    .arr("samples", samples).raw("extra", extra.done()).dbl("wall_s", now_s() - t0);
  sink().line(st.done());
  return 0;
}

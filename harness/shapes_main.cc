// Dispatcher for the Box / BD_Shape / Octagonal_Shape explorer (properties C03 and C04).
#include "harness/shapes_reg.hh"
#include <cstdio>
#include <cstring>
int main(int argc, char** argv) {
  const char* shape = 0;
  for (int i = 1; i + 1 < argc; ++i) if (!strcmp(argv[i], "--shape")) shape = argv[i + 1];
  if (!shape || !shp::registry().count(shape)) {
    fprintf(stderr, "usage: %s --shape <name> ...; linked instantiations:", argv[0]);
    for (auto& kv : shp::registry()) fprintf(stderr, " %s", kv.first.c_str());
    fprintf(stderr, "\n");
    return 3;
  }
  return shp::registry()[shape](argc, argv);
}

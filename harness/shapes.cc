// Explicit-state explorer over real Box / BD_Shape / Octagonal_Shape objects (properties C03, C04).
//
// One instantiation per translation unit: a wrapper harness/shapes.d/<name>.cc defines SHAPE_T and
// SHAPE_NAME and includes this file; harness/shapes_main.cc dispatches on --shape <name>.
//
// Concretisation gamma(s): the cell read DIRECTLY from the matrix / interval bounds through
// -fno-access-control (independent of constraints(), closure and reduction).
// Phase A: BFS closure of a builder alphabet (octagonal rows with constants of a menu, observers
//          that trigger closure / reduction), dedup on exact ascii_dump text, member-wise clone.
// Phase B: every query and every transformer on every representative (value class x status
//          signature) with every operand of a pool; converting constructors from other domains.
// Oracle : C03 (every bound type): gamma(result) contains f(gamma(args)), definite answers hold;
//          C04 (mpq): answers exact, exact / best-abstraction operators equal the reference.
#include "harness/shapes_part1.hh"
#include "harness/shapes_part2.hh"
#include "harness/shapes_part3.hh"

// C16 part 1: CO_Tree and Sparse_Row explored to closure against std::map<unsigned, mpz_class>.
//   --mode tree : stand-alone CO_Tree objects, whole public alphabet, keys 0..K-1
//   --mode row  : Sparse_Row objects of size minsize..K through their public API
// State key = layout (max_depth, the whole indexes[] array [, row size]) read with -fno-access-control.
// Data are canonicalised to key+1 after every transition through the public iterator (CO_Tree never
// branches on data); data-dependent row operations (linear_combine, combine*, normalize) are run
// from every state with every member of a fixed menu of data patterns.
// Hints: every live position and end() -- hence "wrong" hints arbitrarily far from / on the wrong side of the
// key.  Iterators that a mutation has invalidated are never passed (documented precondition), except the ones the
// documentation declares still valid (fast_shift, fast_swap, add_zeroes_and_shift, the end() reference), which
// are re-checked after those calls.
#include "harness/c16_bfs.hh"
#include "ppl-config.h"
#include "version.hh"
#include "ppl_include_files.hh"
#include <gmpxx.h>

namespace PPL = Parma_Polyhedra_Library;
using namespace vf;
using c16::Fail;
typedef PPL::CO_Tree Tree;
typedef PPL::Sparse_Row SRow;
typedef PPL::Dense_Row DRow;
typedef PPL::dimension_type dim_t;
typedef std::map<unsigned, mpz_class> Map;

static Args ARGS;
static const dim_t UNUSED = Tree::unused_index;
static const long VNEW = -7;     // the value used by insert(k, v): differs from every canonical value

static inline uint32_t mk(int kind, int a = 0, int b = 0, int c = 0) { return (uint32_t)kind | ((uint32_t)a << 8) | ((uint32_t)b << 16) | ((uint32_t)c << 24); }
static inline int opk(uint32_t o) { return o & 255; }
static inline int opa(uint32_t o) { return (o >> 8) & 255; }
static inline int opb(uint32_t o) { return (o >> 16) & 255; }
static inline int opc(uint32_t o) { return (o >> 24) & 255; }

static std::string zs(const mpz_class& z) { return z.get_str(); }
static std::string map_str(const Map& m) {
  std::string s = "{";
  for (Map::const_iterator i = m.begin(); i != m.end(); ++i) { if (i != m.begin()) s += ","; s += std::to_string(i->first) + ":" + zs(i->second); }
  return s + "}";
}

// ---------------------------------------------------------------- raw layout access (reads only)
static std::string tree_key(const Tree& t) {
  std::string s;
  s.push_back((char)t.max_depth);
  for (dim_t i = 1; i <= t.reserved_size; ++i) s.push_back(t.indexes[i] == UNUSED ? (char)0xFF : (char)t.indexes[i]);
  return s;
}
static std::string key_layout_str(const std::string& k, size_t from = 0) {
  std::string s = "depth=" + std::to_string((int)(unsigned char)k[from]) + " [";
  for (size_t i = from + 1; i < k.size(); ++i) { if (i > from + 1) s += " "; unsigned char c = k[i]; s += c == 0xFF ? std::string("_") : std::to_string((int)c); }
  return s + "]";
}
static std::string tree_dump(const Tree& t) {
  std::string s = "reserved=" + std::to_string(t.reserved_size) + " depth=" + std::to_string(t.max_depth) + " size=" + std::to_string(t.size_) + " [";
  for (dim_t i = 1; i <= t.reserved_size; ++i) {
    if (i > 1) s += " ";
    if (t.indexes[i] == UNUSED) s += "_"; else s += std::to_string(t.indexes[i]) + ":" + zs(t.data[i]);
  }
  return s + "]";
}

// Structural + content check of a tree against the reference map.  Returns "" or a clause; obs/exp filled.
static const char* check_tree_(Tree& t, const Map& m, bool exact_values) {
  if (!t.OK()) return "invariant:OK()";
  // raw scan
  if (t.reserved_size != 0) {
    if (t.reserved_size != ((dim_t)1 << t.max_depth) - 1) return "invariant:reserved_size";
    if (t.indexes[0] == UNUSED || t.indexes[t.reserved_size + 1] == UNUSED) return "invariant:iterator-markers";
  }
  Map::const_iterator mi = m.begin();
  dim_t used = 0;
  for (dim_t i = 1; i <= t.reserved_size; ++i) {
    if (t.indexes[i] == UNUSED) continue;
    ++used;
    if (mi == m.end() || mi->first != t.indexes[i]) return "map:keys!=reference";
    if (exact_values && t.data[i] != mi->second) return "map:data!=reference";
    ++mi;
    // connectivity: every stored node hangs below stored nodes (go_down_searching_key relies on it)
    dim_t off = i & (~i + 1);
    if (off != (t.reserved_size + 1) / 2) {
      dim_t p = (i & ~off) | (off * 2);      // parent in the in-order layout
      if (t.indexes[p] == UNUSED) return "invariant:stored-node-below-unused-node";
    }
  }
  if (mi != m.end()) return "map:keys!=reference";
  if (used != t.size_ || t.size() != m.size() || t.empty() != m.empty()) return "invariant:size";
  // public iteration, forward and backward, both iterator kinds
  {
    Map::const_iterator e = m.begin();
    for (Tree::iterator i = t.begin(), ie = t.end(); i != ie; ++i, ++e) {
      if (e == m.end() || i.index() != e->first || (exact_values && *i != e->second)) return "iteration:forward!=reference";
    }
    if (e != m.end()) return "iteration:forward!=reference";
    const Tree& ct = t;
    e = m.begin();
    for (Tree::const_iterator i = ct.begin(), ie = ct.end(); i != ie; ++i, ++e) {
      if (e == m.end() || i.index() != e->first || (exact_values && *i != e->second)) return "iteration:const-forward!=reference";
    }
    if (e != m.end()) return "iteration:const-forward!=reference";
    if (ct.cbegin() != ct.begin() || ct.cend() != ct.end()) return "iteration:cbegin/cend";
    if (!m.empty()) {
      Map::const_reverse_iterator r = m.rbegin();
      Tree::iterator i = t.end(); Tree::const_iterator ci = ct.end();
      for (size_t n = 0; n < m.size(); ++n, ++r) {
        --i; --ci;
        if (i.index() != r->first || ci.index() != r->first) return "iteration:backward!=reference";
      }
      if (i != t.begin() || ci != ct.begin()) return "iteration:backward!=reference";
    }
  }
  return 0;
}
static std::string check_tree(Tree& t, const Map& m, std::string& obs, std::string& exp, bool exact_values = true) {
  const char* cl = check_tree_(t, m, exact_values);
  if (!cl) return std::string();
  exp = map_str(m); obs = tree_dump(t);
  return cl;
}

static bool it_at(const Tree& t, const Tree::iterator& it, unsigned k, const mpz_class& v) {
  std::ptrdiff_t slot = it.current_index - t.indexes;
  if (slot < 1 || slot > (std::ptrdiff_t)t.reserved_size) return false;
  if (it.current_data != t.data + slot) return false;
  if (t.indexes[slot] != k || t.data[slot] != v) return false;
  return it.index() == k && *it == v;
}
static bool cit_at(const Tree& t, const Tree::const_iterator& it, unsigned k, const mpz_class& v) {
  std::ptrdiff_t slot = it.current_index - t.indexes;
  if (slot < 1 || slot > (std::ptrdiff_t)t.reserved_size) return false;
  if (it.current_data != t.data + slot) return false;
  if (t.indexes[slot] != k || t.data[slot] != v) return false;
  return it.index() == k && *it == v;
}
static std::string it_str(const Tree& t, const Tree::iterator& it) {
  std::ptrdiff_t slot = it.current_index - t.indexes;
  if (it == const_cast<Tree&>(t).end()) return "end()";
  if (slot < 1 || slot > (std::ptrdiff_t)t.reserved_size) return "slot " + std::to_string(slot) + " (out of range)";
  if (t.indexes[slot] == UNUSED) return "slot " + std::to_string(slot) + " (unused)";
  return "key " + std::to_string(t.indexes[slot]) + " value " + zs(t.data[slot]);
}
static std::string cit_str(const Tree& t, const Tree::const_iterator& it) {
  std::ptrdiff_t slot = it.current_index - t.indexes;
  if (it == t.end()) return "end()";
  if (slot < 1 || slot > (std::ptrdiff_t)t.reserved_size) return "slot " + std::to_string(slot) + " (out of range)";
  if (t.indexes[slot] == UNUSED) return "slot " + std::to_string(slot) + " (unused)";
  return "key " + std::to_string(t.indexes[slot]) + " value " + zs(t.data[slot]);
}
static Tree::iterator nth(Tree& t, unsigned h) {
  if (h >= t.size()) return t.end();
  Tree::iterator it = t.begin();
  for (unsigned i = 0; i < h; ++i) ++it;
  return it;
}
static std::vector<unsigned> keys_of(const Map& m) { std::vector<unsigned> v; for (Map::const_iterator i = m.begin(); i != m.end(); ++i) v.push_back(i->first); return v; }

// input iterator for the sequence constructor
struct SeqIt {
  const std::vector<std::pair<unsigned, mpz_class> >* v; size_t i;
  SeqIt(const std::vector<std::pair<unsigned, mpz_class> >& vv) : v(&vv), i(0) {}
  dim_t index() const { return (*v)[i].first; }
  const mpz_class& operator*() const { return (*v)[i].second; }
  SeqIt& operator++() { ++i; return *this; }
  SeqIt operator++(int) { SeqIt t = *this; ++i; return t; }
};
static std::vector<std::pair<unsigned, mpz_class> > seq_of_mask(unsigned mask) {
  std::vector<std::pair<unsigned, mpz_class> > s;
  for (unsigned k = 0; k < 32; ++k) if (mask & (1u << k)) s.push_back(std::make_pair(k, mpz_class((long)k + 1)));
  return s;
}
static Map map_of_mask(unsigned mask) { Map m; for (unsigned k = 0; k < 32; ++k) if (mask & (1u << k)) m[k] = (long)k + 1; return m; }

// expected result of a bisect-like search among sorted keys ks[f..l]: rank r is acceptable?
static bool bisect_ok(const std::vector<unsigned>& ks, int f, int l, unsigned k, int r) {
  if (r < f || r > l) return false;
  int j = f; while (j <= l && ks[j] < k) ++j;         // first rank with key >= k
  if (j <= l && ks[j] == k) return r == j;
  return r == j - 1 || r == j;                           // immediately preceding or succeeding (range check above)
}

// ================================================================ CO_Tree model
enum { T_INS, T_INSV, T_INSH, T_INSHV, T_INSA, T_INSHA, T_ERK, T_ERI, T_ESL, T_INC, T_FSH, T_CLR, T_COPY, T_SELF, T_ASSIGN, T_SWAP, T_CTOR, T_STDSWAP };
static const char* T_SITE[] = { "CO_Tree::insert(key)", "CO_Tree::insert(key,data)", "CO_Tree::insert(iterator,key)", "CO_Tree::insert(iterator,key,data)",
  "CO_Tree::insert(key,data)", "CO_Tree::insert(iterator,key,data)", "CO_Tree::erase(key)", "CO_Tree::erase(iterator)", "CO_Tree::erase_element_and_shift_left",
  "CO_Tree::increase_keys_from", "CO_Tree::fast_shift", "CO_Tree::clear", "CO_Tree::CO_Tree(const CO_Tree&)", "CO_Tree::operator=", "CO_Tree::operator=",
  "CO_Tree::m_swap", "CO_Tree::CO_Tree(Iterator,n)", "swap(CO_Tree&,CO_Tree&)" };

struct TreeModel {
  int K;
  std::vector<unsigned> pool_masks;
  struct Obj { std::unique_ptr<Tree> t; Map m; };

  explicit TreeModel(int k) : K(k) {
    unsigned full = (1u << K) - 1, alt = 0;
    for (int i = 0; i < K; i += 2) alt |= 1u << i;
    pool_masks = { 0u, 1u, full, alt, (1u << (K / 2)) - 1 };
  }
  void initial(Obj& o) { o.t.reset(new Tree()); o.m.clear(); }
  std::string key(const Obj& o) const { return tree_key(*o.t); }
  std::string layout_str(const std::string& k) const { return key_layout_str(k); }
  std::string lookup_site() const { return "CO_Tree::bisect*"; }
  int depth_byte() const { return 0; }
  std::string site(uint32_t op) const { return T_SITE[opk(op)]; }
  std::string hs(int h, const char* what = "hint") const { return std::string(what) + "=#" + std::to_string(h); }
  std::string op_name(uint32_t op) const {
    int a = opa(op), b = opb(op), c = opc(op);
    switch (opk(op)) {
      case T_INS: return "insert(" + std::to_string(a) + ")";
      case T_INSV: return "insert(" + std::to_string(a) + ",-7)";
      case T_INSH: return "insert(" + hs(a) + "," + std::to_string(b) + ")";
      case T_INSHV: return "insert(" + hs(a) + "," + std::to_string(b) + ",-7)";
      case T_INSA: return "insert(" + std::to_string(b) + ",*" + hs(a, "elem") + ")";
      case T_INSHA: return "insert(" + hs(a) + "," + std::to_string(c) + ",*" + hs(b, "elem") + ")";
      case T_ERK: return "erase(" + std::to_string(a) + ")";
      case T_ERI: return "erase(" + hs(a, "elem") + ")";
      case T_ESL: return "erase_element_and_shift_left(" + std::to_string(a) + ")";
      case T_INC: return "increase_keys_from(" + std::to_string(a) + "," + std::to_string(b) + ")";
      case T_FSH: return "fast_shift(" + std::to_string(b) + "," + hs(a, "elem") + ")";
      case T_CLR: return "clear()";
      case T_COPY: return "copy-construct";
      case T_SELF: return "t = t";
      case T_ASSIGN: return "t = CO_Tree(seq mask " + std::to_string(pool_masks[a]) + ")";
      case T_SWAP: return "m_swap(CO_Tree(seq mask " + std::to_string(pool_masks[a]) + "))";
      case T_STDSWAP: return "swap(t, CO_Tree(seq mask " + std::to_string(pool_masks[a]) + "))";
      case T_CTOR: return "CO_Tree(sorted sequence, keys mask " + std::to_string(a | (b << 8) | (c << 16)) + ")";
    }
    return "?";
  }
  // hint "#h" means: the iterator at rank h (in key order) of the current tree, #size = end()

  bool clone(const Obj& b, Obj& w, Fail* f) {
    w.t.reset(new Tree(*b.t));
    w.m = b.m;
    if (tree_key(*w.t) != tree_key(*b.t)) { f->put("CO_Tree::CO_Tree(const CO_Tree&)", "copy:layout-differs", tree_dump(*w.t), tree_dump(*b.t)); return false; }
    return true;
  }
  void canon(Obj& o) {
    for (Tree::iterator i = o.t->begin(), e = o.t->end(); i != e; ++i) *i = (long)i.index() + 1;
    for (Map::iterator i = o.m.begin(); i != o.m.end(); ++i) i->second = (long)i->first + 1;
  }

  bool apply(Obj& o, uint32_t op, Fail* f) {
    Tree& t = *o.t; Map& m = o.m;
    const std::string st = site(op);
    int a = opa(op), b = opb(op), c = opc(op);
    std::vector<unsigned> ks = keys_of(m);
    bool have_it = false; Tree::iterator rit; bool exp_end = false; unsigned exp_key = 0;
    bool check_hint = false; std::string hint_free_key;
    switch (opk(op)) {
      case T_INS: rit = t.insert((dim_t)a); if (!m.count(a)) m[a] = 0; have_it = true; exp_key = a; break;
      case T_INSV: rit = t.insert((dim_t)a, mpz_class(VNEW)); m[a] = VNEW; have_it = true; exp_key = a; break;
      // "the value of itr does not affect the result of this method": the layout must be the one of the un-hinted insert
      case T_INSH: { Tree plain(t); plain.insert((dim_t)b); hint_free_key = tree_key(plain); check_hint = true;
        rit = t.insert(nth(t, a), (dim_t)b); if (!m.count(b)) m[b] = 0; have_it = true; exp_key = b; break; }
      case T_INSHV: { Tree plain(t); plain.insert((dim_t)b, mpz_class(VNEW)); hint_free_key = tree_key(plain); check_hint = true;
        rit = t.insert(nth(t, a), (dim_t)b, mpz_class(VNEW)); m[b] = VNEW; have_it = true; exp_key = b; break; }
      case T_INSA: {
        Tree::iterator src = nth(t, a);
        const Tree::iterator& csrc = src;
        mpz_class v = m[ks[a]];
        rit = t.insert((dim_t)b, *csrc);      // the datum is a reference into the tree itself
        m[b] = v; have_it = true; exp_key = b; break; }
      case T_INSHA: {
        Tree::iterator src = nth(t, b);
        const Tree::iterator& csrc = src;
        mpz_class v = m[ks[b]];
        { Tree plain(t); plain.insert((dim_t)c, v); hint_free_key = tree_key(plain); check_hint = true; }
        rit = t.insert(nth(t, a), (dim_t)c, *csrc);
        m[c] = v; have_it = true; exp_key = c; break; }
      case T_ERK: {
        rit = t.erase((dim_t)a); m.erase(a);
        Map::iterator n = m.upper_bound(a);
        have_it = true; if (n == m.end()) exp_end = true; else exp_key = n->first; break; }
      case T_ERI: {
        unsigned k = ks[a];
        rit = t.erase(nth(t, a)); m.erase(k);
        Map::iterator n = m.upper_bound(k);
        have_it = true; if (n == m.end()) exp_end = true; else exp_key = n->first; break; }
      case T_ESL: {
        t.erase_element_and_shift_left((dim_t)a);
        Map n; for (Map::iterator i = m.begin(); i != m.end(); ++i) { if (i->first < (unsigned)a) n[i->first] = i->second; else if (i->first > (unsigned)a) n[i->first - 1] = i->second; }
        m.swap(n); break; }
      case T_INC: {
        t.increase_keys_from((dim_t)a, (dim_t)b);
        Map n; for (Map::iterator i = m.begin(); i != m.end(); ++i) n[i->first >= (unsigned)a ? i->first + b : i->first] = i->second;
        m.swap(n); break; }
      case T_FSH: {
        // all iterators must remain valid
        std::vector<Tree::iterator> held; for (Tree::iterator i = t.begin(), e = t.end(); i != e; ++i) held.push_back(i);
        t.fast_shift((dim_t)b, nth(t, a));
        Map n; unsigned r = 0; for (Map::iterator i = m.begin(); i != m.end(); ++i, ++r) n[r == (unsigned)a ? (unsigned)b : i->first] = i->second;
        m.swap(n);
        r = 0;
        for (Map::iterator i = m.begin(); i != m.end(); ++i, ++r)
          if (!it_at(t, held[r], i->first, i->second)) { f->put(st, "iterators:not-kept-valid", it_str(t, held[r]), "key " + std::to_string(i->first)); return false; }
        break; }
      case T_CLR: t.clear(); m.clear(); break;
      case T_COPY: {
        std::unique_ptr<Tree> c2(new Tree(t));
        if (tree_key(*c2) != tree_key(t)) { f->put(st, "copy:layout-differs", tree_dump(*c2), tree_dump(t)); return false; }
        std::string ob, ex; std::string cl = check_tree(t, m, ob, ex);
        if (!cl.empty()) { f->put(st, "source-changed:" + cl, ob, ex); return false; }
        o.t.swap(c2);
        break; }
      case T_SELF: { Tree& r = (t = t); if (&r != &t) { f->put(st, "return:reference", "other", "*this"); return false; } break; }
      case T_ASSIGN: case T_SWAP: case T_STDSWAP: {
        std::vector<std::pair<unsigned, mpz_class> > s = seq_of_mask(pool_masks[a]);
        Tree other(SeqIt(s), s.size());
        Map om = map_of_mask(pool_masks[a]);
        std::string ob, ex, cl;
        if (opk(op) == T_ASSIGN) {
          t = other;
          if (tree_key(t) != tree_key(other)) { f->put(st, "copy:layout-differs", tree_dump(t), tree_dump(other)); return false; }
          m = om;
        } else {
          if (opk(op) == T_SWAP) t.m_swap(other); else { using std::swap; swap(t, other); }
          m.swap(om);
        }
        cl = check_tree(other, om, ob, ex);
        if (!cl.empty()) { f->put(st, "other-operand:" + cl, ob, ex); return false; }
        break; }
      case T_CTOR: {
        unsigned mask = a | (b << 8) | (c << 16);
        std::vector<std::pair<unsigned, mpz_class> > s = seq_of_mask(mask);
        o.t.reset(new Tree(SeqIt(s), s.size()));
        m = map_of_mask(mask);
        break; }
    }
    Tree& t2 = *o.t;
    std::string ob, ex;
    std::string cl = check_tree(t2, m, ob, ex);
    if (!cl.empty()) { f->put(st, cl, ob, ex); return false; }
    if (have_it) {
      if (exp_end) { if (rit != t2.end()) { f->put(st, "return:iterator", it_str(t2, rit), "end()"); return false; } }
      else if (!it_at(t2, rit, exp_key, m[exp_key])) { f->put(st, "return:iterator", it_str(t2, rit), "key " + std::to_string(exp_key) + " value " + zs(m[exp_key]), tree_dump(t2)); return false; }
    }
    if (check_hint && tree_key(t2) != hint_free_key) { f->put(st, "hint-independence:layout-differs-from-unhinted-insert", key_layout_str(tree_key(t2)), key_layout_str(hint_free_key)); return false; }
    canon(o);
    return true;
  }

  void ops(const Obj& o, int id, std::vector<uint32_t>& v) {
    std::vector<unsigned> ks = keys_of(o.m);
    int n = (int)ks.size();
    for (int k = 0; k < K; ++k) { v.push_back(mk(T_INS, k)); v.push_back(mk(T_INSV, k)); }
    for (int k = 0; k < K; ++k) for (int h = 0; h <= n; ++h) { v.push_back(mk(T_INSH, h, k)); v.push_back(mk(T_INSHV, h, k)); }
    for (int k = 0; k < K; ++k) for (int p = 0; p < n; ++p) {
      v.push_back(mk(T_INSA, p, k));
      v.push_back(mk(T_INSHA, p, p, k)); v.push_back(mk(T_INSHA, n, p, k)); if (p != 0) v.push_back(mk(T_INSHA, 0, p, k));
    }
    for (int k = 0; k < K; ++k) { v.push_back(mk(T_ERK, k)); v.push_back(mk(T_ESL, k)); }
    for (int p = 0; p < n; ++p) v.push_back(mk(T_ERI, p));
    if (n > 0) {
      int mx = ks[n - 1];
      for (int k = 0; k <= mx; ++k) for (int d = 1; d <= K - 1 - mx; ++d) v.push_back(mk(T_INC, k, d));
      if (mx + 1 < K) v.push_back(mk(T_INC, mx + 1, 1));   // no key affected
    } else v.push_back(mk(T_INC, 0, 1));
    for (int p = 0; p < n; ++p) for (int i = (p ? (int)ks[p - 1] + 1 : 0); i <= (int)ks[p]; ++i) v.push_back(mk(T_FSH, p, i));
    v.push_back(mk(T_CLR)); v.push_back(mk(T_COPY)); v.push_back(mk(T_SELF));
    for (size_t i = 0; i < pool_masks.size(); ++i) { v.push_back(mk(T_ASSIGN, (int)i)); v.push_back(mk(T_SWAP, (int)i)); v.push_back(mk(T_STDSWAP, (int)i)); }
    if (id == 0) for (unsigned mask = 1; mask < (1u << K); ++mask) v.push_back(mk(T_CTOR, mask & 255, (mask >> 8) & 255, (mask >> 16) & 255));
  }

  // all observers in this state, from every hint; returns the number of implementation calls
  long long lookups(Obj& o, Fail* f) {
    Tree& t = *o.t; const Tree& ct = t; const Map& m = o.m;
    std::vector<unsigned> ks = keys_of(m);
    int n = (int)ks.size();
    long long calls = 0;
    std::vector<Tree::iterator> its; std::vector<Tree::const_iterator> cits;
    { Tree::iterator i = t.begin(); Tree::const_iterator ci = ct.begin(); for (int r = 0; r < n; ++r, ++i, ++ci) { its.push_back(i); cits.push_back(ci); } its.push_back(t.end()); cits.push_back(ct.end()); }
    // slot -> rank
    std::map<const dim_t*, int> rank; for (int r = 0; r < n; ++r) rank[its[r].current_index] = r;
    auto rk = [&](const dim_t* p) -> int { std::map<const dim_t*, int>::iterator i = rank.find(p); return i == rank.end() ? -1 : i->second; };
    auto judge = [&](const char* api, const dim_t* cur, bool is_end, int fr, int lr, unsigned k, const std::string& arg) -> bool {
      ++calls;
      if (n == 0) { if (is_end) return true; f->put(std::string("CO_Tree::") + api, "lookup:result", "not end()", "end() (empty tree)", arg); return false; }
      int r = is_end ? -1 : rk(cur);
      if (r < 0 || !bisect_ok(ks, fr, lr, k, r)) {
        f->put(std::string("CO_Tree::") + api, "lookup:result", is_end ? "end()" : (r < 0 ? "invalid position" : "key " + std::to_string(ks[r])), "key " + std::to_string(k) + " or its neighbour in range", arg);
        return false;
      }
      return true;
    };
    for (unsigned k = 0; k <= (unsigned)K; ++k) {
      { Tree::iterator r = t.bisect(k); if (!judge("bisect", r.current_index, r == t.end(), 0, n - 1, k, "bisect(" + std::to_string(k) + ")")) return -calls; }
      { Tree::const_iterator r = ct.bisect(k); if (!judge("bisect const", r.current_index, r == ct.end(), 0, n - 1, k, "bisect(" + std::to_string(k) + ") const")) return -calls; }
      for (int h = 0; h <= n; ++h) {
        { Tree::iterator r = t.bisect_near(its[h], k); if (!judge("bisect_near", r.current_index, r == t.end(), 0, n - 1, k, "bisect_near(hint=#" + std::to_string(h) + "," + std::to_string(k) + ")")) return -calls; }
        { Tree::const_iterator r = ct.bisect_near(cits[h], k); if (!judge("bisect_near const", r.current_index, r == ct.end(), 0, n - 1, k, "bisect_near(hint=#" + std::to_string(h) + "," + std::to_string(k) + ") const")) return -calls; }
      }
      for (int a = 0; a < n; ++a) for (int b = a; b < n; ++b) {
        std::string arg = "bisect_in(#" + std::to_string(a) + ",#" + std::to_string(b) + "," + std::to_string(k) + ")";
        { Tree::iterator r = t.bisect_in(its[a], its[b], k); if (!judge("bisect_in", r.current_index, r == t.end(), a, b, k, arg)) return -calls; }
        { Tree::const_iterator r = ct.bisect_in(cits[a], cits[b], k); if (!judge("bisect_in const", r.current_index, r == ct.end(), a, b, k, arg + " const")) return -calls; }
      }
    }
    // iterator conversions / post-increment / swap
    if (n > 0) {
      Tree::iterator i = t.begin(); Tree::iterator j = i++; ++calls;
      if (j != t.begin() || (n > 1 ? i.index() != ks[1] : i != t.end())) { f->put("CO_Tree::iterator::operator++(int)", "iteration:post-increment", "?", "?"); return -calls; }
      Tree::iterator e = t.end(); Tree::iterator e2 = e--; ++calls;
      if (e2 != t.end() || e.index() != ks[n - 1]) { f->put("CO_Tree::iterator::operator--(int)", "iteration:post-decrement", "?", "?"); return -calls; }
      Tree::const_iterator c1(its[0]), c2 = ct.end(); swap(c1, c2); ++calls;
      if (c1 != ct.end() || c2 != ct.begin()) { f->put("swap(const_iterator&,const_iterator&)", "iteration:swap", "?", "?"); return -calls; }
      Tree::iterator x1 = t.begin(), x2 = t.end(); swap(x1, x2); ++calls;
      if (x1 != t.end() || x2 != t.begin()) { f->put("swap(iterator&,iterator&)", "iteration:swap", "?", "?"); return -calls; }
    }
    (void)t.external_memory_in_bytes(); ++calls;
    // the observers must not have changed anything
    std::string ob, ex, cl = check_tree(t, m, ob, ex);
    if (!cl.empty()) { f->put("CO_Tree::bisect*", "observer-changed-state:" + cl, ob, ex); return -calls; }
    return calls;
  }
};

#include "harness/c16_rowmodel.hh"

template <class M>
static int explore(M& model, const std::string& tag, const std::string& bound) {
  c16::Explorer<M> ex(model, ARGS, tag);
  double t0 = now_s();
  ex.run();
  std::vector<std::string> samples;
  size_t n = ex.keys.size();
  for (size_t i = 1; i < n && samples.size() < 3; i += std::max<size_t>(1, n / 3)) {
    int id = (int)std::min(n - 1, i + n / 7);
    samples.push_back(J().raw("history", ex.history_json(id, false)).str("layout", model.layout_str(*ex.keys[id])).done());
  }
  if (samples.empty()) samples.push_back(jstr("(initial state only)"));
  int maxdepth = 0; std::map<int, long long> by_tree_depth;
  for (size_t i = 0; i < n; ++i) { maxdepth = std::max(maxdepth, ex.depth[i]); by_tree_depth[(int)(unsigned char)(*ex.keys[i])[model.depth_byte()]]++; }
  J heights; for (std::map<int, long long>::iterator i = by_tree_depth.begin(); i != by_tree_depth.end(); ++i) heights.num("max_depth=" + std::to_string(i->first), i->second);
  bool exhaustive = ex.complete && ex.frontier.empty() && counter(CNT_SKIPPED) == 0;
  J extra; extra.num("distinct_layouts", (long long)n).num("mutator_calls_checked", counter(CNT_TRANS) - counter(c16::CNT_LOOKUPS))
    .num("observer_calls_checked", counter(c16::CNT_LOOKUPS)).num("bfs_levels", ex.levels).num("longest_shortest_history", maxdepth)
    .num("histories_replayed_and_matched", counter(c16::CNT_REPLAYS)).num("replayed_calls", counter(c16::CNT_REPLAY_OPS))
    .num("violating_transitions", counter(c16::CNT_VIOL_TRANS)).num("transitions_matching_a_known_finding_trigger_successor_not_expanded", counter(c16::CNT_TRIG_TRANS)).num("items_skipped_by_deadline", counter(CNT_SKIPPED))
    .raw("layouts_by_tree_height", heights.done());
  J st; st.str("t", "stats").num("states", (long long)n).num("transitions", counter(CNT_TRANS))
    .num("traces_validated_against_impl", counter(c16::CNT_REPLAYS)).boolean("exhaustive", exhaustive)
    .str("bound", bound + (exhaustive ? "; BFS reached closure (frontier empty)" : "; NOT closed (deadline or failing transitions)"))
    .arr("samples", samples).raw("extra", extra.done()).dbl("wall_s", now_s() - t0);
  sink().line(st.done());
  fprintf(stderr, "[c16 %s] states=%zu transitions=%lld exhaustive=%d wall=%.1fs\n", tag.c_str(), n, counter(CNT_TRANS), (int)exhaustive, now_s() - t0);
  return 0;
}

// --replay: re-execute one recorded violation and print both sides
template <class M>
static int replay(M& model, const std::string& text) {
  auto list = [&](const std::string& name) { std::vector<uint32_t> v; size_t p = text.find("\"" + name + "\""); if (p == std::string::npos) return v; p = text.find('[', p); size_t e = text.find(']', p);
    std::string s = text.substr(p + 1, e - p - 1); std::istringstream is(s); std::string tok; while (std::getline(is, tok, ',')) if (!tok.empty()) v.push_back((uint32_t)strtoul(tok.c_str(), 0, 10)); return v; };
  std::vector<uint32_t> h = list("history_codes");
  typename M::Obj o; model.initial(o);
  for (size_t i = 0; i < h.size(); ++i) { Fail f; bool ok = model.apply(o, h[i], &f); printf("  %s%s\n", model.op_name(h[i]).c_str(), ok ? "" : "   <-- FAILED"); }
  printf("state: %s\n", model.layout_str(model.key(o)).c_str());
  size_t p = text.find("\"op_code\"");
  if (p != std::string::npos) {
    uint32_t op = (uint32_t)strtoul(text.c_str() + text.find(':', p) + 1, 0, 10);
    Fail f; bool ok = model.apply(o, op, &f);
    printf("op: %s -> %s\n", model.op_name(op).c_str(), ok ? "ok" : "VIOLATION");
    if (!ok) printf("  site=%s clause=%s\n  observed=%s\n  expected=%s\n  detail=%s\n", f.site.c_str(), f.clause.c_str(), f.observed.c_str(), f.expected.c_str(), f.detail.c_str());
  } else {
    Fail f; model.lookups(o, &f);
    if (f.set) printf("lookups: VIOLATION site=%s clause=%s observed=%s expected=%s detail=%s\n", f.site.c_str(), f.clause.c_str(), f.observed.c_str(), f.expected.c_str(), f.detail.c_str());
    else printf("lookups: ok\n");
  }
  return 0;
}

int main(int argc, char** argv) {
  ARGS = parse_args(argc, argv);
  sink().open(ARGS.out);
  std::string mode = ARGS.opt("--mode", "tree");
  int K = atoi(ARGS.opt("--keys", "8").c_str());
  int minsize = atoi(ARGS.opt("--minsize", std::to_string(K - 1)).c_str());
  std::string rtext;
  if (!ARGS.replay.empty()) { std::ifstream in(ARGS.replay.c_str()); rtext.assign((std::istreambuf_iterator<char>(in)), std::istreambuf_iterator<char>()); }
#ifndef __SANITIZE_ADDRESS__
  limit_memory(40ULL << 30);   // RLIMIT_AS is incompatible with the ASan shadow mapping
#endif
  if (mode == "tree") {
    if (K < 2 || K > 20) { sink().line(J().str("t", "error").str("msg", "--keys out of range").done()); return 2; }
    TreeModel m(K);
    if (!rtext.empty()) return replay(m, rtext);
    return explore(m, "CO_Tree", "CO_Tree: keys 0.." + std::to_string(K - 1) + ", all distinct data; alphabet insert(k)/insert(k,v)/insert(hint,k[,v]) from every position and end(), insert with datum aliasing an element, "
      "erase(k), erase(iterator) at every position, erase_element_and_shift_left, increase_keys_from, fast_shift, clear, copy, assignment, m_swap/swap with 5 pool trees, construction from every sorted key subset; "
      "observers bisect/bisect_near from every hint/bisect_in over every range (const and non-const), iteration both ways, in every state");
  }
  if (mode == "row") {
    if (K < 3 || K > 15 || minsize < 1 || minsize > K) { sink().line(J().str("t", "error").str("msg", "--keys/--minsize out of range").done()); return 2; }
    RowModel m(K, minsize, ARGS.has("--lc-light"));
    if (!rtext.empty()) return replay(m, rtext);
    return explore(m, "Sparse_Row", m.bound_text());
  }
  sink().line(J().str("t", "error").str("msg", "unknown --mode").done());
  return 2;
}

// C14 part 2 scenarios: MIP_Problem and PIP_Problem.
#include "harness/c14_oom.hh"

namespace c14 {

static const Variable A(0), B(1), C(2), D(3);

// ---- MIP ------------------------------------------------------------------------------------
enum { MS_LP = 0, MS_MIP = 1, MS_SOLVED = 2 };
static Constraint_System mip_cs() {
  Constraint_System cs;
  cs.insert(A >= 0); cs.insert(B >= 0); cs.insert(C >= 0);
  cs.insert(K(2) * A + B + C <= K(9)); cs.insert(A + K(3) * B <= K(8)); cs.insert(K(2) * C - A <= K(5)); cs.insert(A + B + C >= K(1));
  return cs;
}
static MIP_Problem mip_state(int st) {
  MIP_Problem m(3, mip_cs(), K(3) * A + K(2) * B + C, MAXIMIZATION);
  if (st != MS_LP) { Variables_Set iv; iv.insert(A); iv.insert(C); m.add_to_integer_space_dimensions(iv); }
  if (st == MS_SOLVED) (void) m.solve();
  return m;
}
#define SCN_MIP(name, site) \
  template <int ST> static void C14_CAT(scn_t_, __LINE__)(Run& r); \
  static Reg C14_CAT(reg_a_, __LINE__)("MIP_Problem::" name "/lp", "MIP_Problem::" site, 0, &C14_CAT(scn_t_, __LINE__)<MS_LP>); \
  static Reg C14_CAT(reg_b_, __LINE__)("MIP_Problem::" name "/mip", "MIP_Problem::" site, 0, &C14_CAT(scn_t_, __LINE__)<MS_MIP>); \
  static Reg C14_CAT(reg_c_, __LINE__)("MIP_Problem::" name "/solved", "MIP_Problem::" site, 1, &C14_CAT(scn_t_, __LINE__)<MS_SOLVED>); \
  template <int ST> static void C14_CAT(scn_t_, __LINE__)(Run& r)
#define MIP_X MIP_Problem x = mip_state(ST); MIP_Problem xf(x)

SCN_MIP("solve", "solve") {
  MIP_X;
  faulted(r, [&] { MIP_Problem_Status s = x.solve(); if (s == OPTIMIZED_MIP_PROBLEM) { Generator g = x.optimizing_point(); Coefficient n, d; x.optimal_value(n, d); x.evaluate_objective_function(g, n, d); } });
  usable(r, x, xf, "x");
}
SCN_MIP("is_satisfiable+feasible_point", "is_satisfiable") {
  MIP_X;
  faulted(r, [&] { if (x.is_satisfiable()) { Generator g = x.feasible_point(); (void) g.space_dimension(); } });
  usable(r, x, xf, "x");
}
SCN_MIP("construct(cs,obj,mode)+solve", "MIP_Problem") {
  MIP_X;
  Constraint_System cs = mip_cs(); Linear_Expression obj = A - K(2) * B + C;
  faulted(r, [&] { MIP_Problem m(3, cs, obj, MINIMIZATION); MIP_Problem m2(3, cs.begin(), cs.end(), obj, MAXIMIZATION); (void) m.solve(); (void) m2.solve(); x = m; });
  usable(r, x, xf, "x");
}
SCN_MIP("add_constraint after solve + re-solve", "add_constraint") {
  MIP_X;
  Constraint_System more; more.insert(A + C <= K(4)); more.insert(B >= K(1));
  faulted(r, [&] { (void) x.solve(); x.add_constraint(A + B <= K(3)); (void) x.solve(); x.add_constraints(more); (void) x.solve(); });
  usable(r, x, xf, "x");
}
SCN_MIP("set_objective_function+mode + re-solve", "set_objective_function") {
  MIP_X;
  faulted(r, [&] { (void) x.solve(); x.set_objective_function(K(5) * C - A); (void) x.solve(); x.set_optimization_mode(MINIMIZATION); (void) x.solve(); });
  usable(r, x, xf, "x");
}
SCN_MIP("add_space_dimensions_and_embed + re-solve", "add_space_dimensions_and_embed") {
  MIP_X;
  Variables_Set iv; iv.insert(D);
  faulted(r, [&] { (void) x.solve(); x.add_space_dimensions_and_embed(2); x.add_constraint(D + A <= K(6)); x.add_constraint(D >= K(1)); x.add_to_integer_space_dimensions(iv); x.set_objective_function(D + A); (void) x.solve(); });
  usable(r, x, xf, "x");
}
SCN_MIP("copy+assign+swap+clear", "operator=") {
  MIP_X;
  MIP_Problem y(2); y.add_constraint(A + B <= K(3)); y.add_constraint(A >= 0); y.add_constraint(B >= 0); y.set_objective_function(A + B); (void) y.solve(); MIP_Problem yf(y);
  faulted(r, [&] { MIP_Problem z(x); y = z; z.m_swap(x); (void) y.solve(); z.clear(); std::stringstream ss; y.ascii_dump(ss); MIP_Problem l; (void) l.ascii_load(ss); });
  usable(r, x, xf, "x"); usable(r, y, yf, "y");
}
SCN("MIP_Problem::solve/unfeasible", "MIP_Problem::solve", 1) {
  MIP_Problem x(2); x.add_constraint(A + B <= K(1)); x.add_constraint(A >= K(1)); x.add_constraint(B >= K(1)); x.set_objective_function(A); MIP_Problem xf(x);
  faulted(r, [&] { (void) x.solve(); (void) x.is_satisfiable(); });
  usable(r, x, xf, "x");
}
SCN("MIP_Problem::solve/unbounded", "MIP_Problem::solve", 1) {
  MIP_Problem x(2); x.add_constraint(A - B <= K(1)); x.add_constraint(A >= K(1)); x.set_objective_function(A + B); MIP_Problem xf(x);
  faulted(r, [&] { if (x.solve() == UNBOUNDED_MIP_PROBLEM) { Generator g = x.feasible_point(); (void) g.space_dimension(); } });
  usable(r, x, xf, "x");
}
SCN("MIP_Problem::solve/equalities+free variables", "MIP_Problem::solve", 1) {
  MIP_Problem x(4); x.add_constraint(A + B - C == K(2)); x.add_constraint(K(2) * A - D == 0); x.add_constraint(B <= K(7)); x.add_constraint(C >= -K(3)); x.add_constraint(D <= K(10)); x.add_constraint(A - B >= -K(6));
  x.set_objective_function(A + B + C - D); Variables_Set iv; iv.insert(B); x.add_to_integer_space_dimensions(iv); MIP_Problem xf(x);
  faulted(r, [&] { if (x.solve() == OPTIMIZED_MIP_PROBLEM) (void) x.optimizing_point(); });
  usable(r, x, xf, "x");
}

// ---- PIP ------------------------------------------------------------------------------------
enum { PS_FRESH = 0, PS_SOLVED = 1, PS_BIG = 2 };
static PIP_Problem pip_state(int st) {
  // variables A, B; parameters C (=n), D (=m):   the example of the class documentation
  Constraint_System cs;
  cs.insert(K(3) * B >= K(2) * A - K(6)); cs.insert(K(4) * B <= A + K(4)); cs.insert(A <= C); cs.insert(B <= D); cs.insert(A >= 0); cs.insert(B >= 0);
  Variables_Set params(C, D);
  PIP_Problem p(4, cs.begin(), cs.end(), params);
  if (st == PS_BIG) p.set_big_parameter_dimension(3);
  if (st == PS_SOLVED) (void) p.solve();
  return p;
}
#define SCN_PIP(name, site) \
  template <int ST> static void C14_CAT(scn_t_, __LINE__)(Run& r); \
  static Reg C14_CAT(reg_a_, __LINE__)("PIP_Problem::" name "/fresh", "PIP_Problem::" site, 0, &C14_CAT(scn_t_, __LINE__)<PS_FRESH>); \
  static Reg C14_CAT(reg_b_, __LINE__)("PIP_Problem::" name "/solved", "PIP_Problem::" site, 1, &C14_CAT(scn_t_, __LINE__)<PS_SOLVED>); \
  static Reg C14_CAT(reg_c_, __LINE__)("PIP_Problem::" name "/bigparam", "PIP_Problem::" site, 1, &C14_CAT(scn_t_, __LINE__)<PS_BIG>); \
  template <int ST> static void C14_CAT(scn_t_, __LINE__)(Run& r)
// (the reference object is an unsolved one: assigning from a solved PIP_Problem is a scenario of its own, see below)
#define PIP_X PIP_Problem x = pip_state(ST); PIP_Problem xf(pip_state(ST == PS_SOLVED ? PS_FRESH : ST))

SCN_PIP("solve", "solve") {
  PIP_X;
  faulted(r, [&] { if (x.solve() == OPTIMIZED_PIP_PROBLEM) { PIP_Tree t = x.solution(); (void) t->OK(); } });
  usable(r, x, xf, "x");
}
SCN_PIP("solve+print_solution", "print_solution") {
  PIP_X;
  faulted(r, [&] { (void) x.solve(); std::ostringstream o; x.print_solution(o); PIP_Tree t = x.optimizing_solution();
                   if (t != 0) { const PIP_Solution_Node* s = t->as_solution(); const PIP_Decision_Node* d = t->as_decision(); if (s) (void) s->parametric_values(A); if (d) (void) d->child_node(true); } });
  usable(r, x, xf, "x");
}
SCN_PIP("add_constraint after solve + re-solve", "add_constraint") {
  PIP_X;
  Constraint_System more; more.insert(A + B <= K(2) * C); more.insert(D >= K(1));
  faulted(r, [&] { (void) x.solve(); x.add_constraint(B <= A + K(1)); (void) x.solve(); x.add_constraints(more); (void) x.solve(); });
  usable(r, x, xf, "x");
}
SCN_PIP("add_space_dimensions_and_embed + re-solve", "add_space_dimensions_and_embed") {
  PIP_X;
  faulted(r, [&] { (void) x.solve(); x.add_space_dimensions_and_embed(1, 1); x.add_constraint(Variable(4) >= A); x.add_constraint(Variable(4) <= Variable(5) + K(3)); (void) x.solve(); });
  usable(r, x, xf, "x");
}
SCN_PIP("copy+assign+swap+clear", "operator=") {
  PIP_Problem x = pip_state(ST == PS_SOLVED ? PS_FRESH : ST); PIP_Problem xf(x);
  PIP_Problem y(2); y.add_to_parameter_space_dimensions(Variables_Set(B)); y.add_constraint(A >= B); y.add_constraint(K(2) * A <= K(7) + B); PIP_Problem yf(y);
  faulted(r, [&] { PIP_Problem z(x); y = z; z.m_swap(x); (void) y.solve(); z.clear(); std::stringstream ss; y.ascii_dump(ss); PIP_Problem l; (void) l.ascii_load(ss); });
  usable(r, x, xf, "x"); usable(r, y, yf, "y");
}
// assignment from / copy of a problem that owns a solution tree
SCN("PIP_Problem::operator=/solved source", "PIP_Problem::operator=", 0) {
  PIP_Problem x = pip_state(PS_SOLVED); PIP_Problem y(2); PIP_Problem yf(y);
  faulted(r, [&] { y = x; (void) y.solve(); });
  usable(r, y, yf, "y");
}
SCN("PIP_Problem::PIP_Problem(copy)/solved source", "PIP_Problem::PIP_Problem(copy)", 0) {
  PIP_Problem x = pip_state(PS_SOLVED); PIP_Problem xf(pip_state(PS_FRESH));
  faulted(r, [&] { PIP_Problem z(x); if (!z.OK()) r.problem("not_ok", "copy-constructed problem"); (void) z.solve(); });
  usable(r, x, xf, "x");
}
SCN_PIP("control parameters + solve", "set_control_parameter") {
  PIP_X;
  faulted(r, [&] { x.set_control_parameter(PIP_Problem::CUTTING_STRATEGY_ALL); x.set_control_parameter(PIP_Problem::PIVOT_ROW_STRATEGY_MAX_COLUMN); (void) x.solve();
                   PIP_Problem z(x); z.set_control_parameter(PIP_Problem::CUTTING_STRATEGY_DEEPEST); z.add_constraint(A + B >= K(1)); (void) z.solve(); });
  usable(r, x, xf, "x");
}
SCN("PIP_Problem::solve/unfeasible", "PIP_Problem::solve", 1) {
  PIP_Problem x(2); x.add_to_parameter_space_dimensions(Variables_Set(B)); x.add_constraint(A >= B + K(1)); x.add_constraint(A <= B); PIP_Problem xf(x);
  faulted(r, [&] { (void) x.solve(); (void) x.is_satisfiable(); });
  usable(r, x, xf, "x");
}
SCN("PIP_Problem::solve/cuts (non-integer vertex)", "PIP_Problem::solve", 0) {
  // 2i+2j >= n (n parameter) needs cuts / artificial parameters
  PIP_Problem x(3); x.add_to_parameter_space_dimensions(Variables_Set(C));
  x.add_constraint(K(2) * A + K(2) * B >= C); x.add_constraint(K(3) * A <= K(2) * C + K(1)); x.add_constraint(B >= 0); x.add_constraint(A >= 0); x.add_constraint(K(2) * B <= C + K(3)); PIP_Problem xf(x);
  faulted(r, [&] { (void) x.solve(); std::ostringstream o; x.print_solution(o); });
  usable(r, x, xf, "x");
}
SCN("PIP_Problem::solve/no parameters", "PIP_Problem::solve", 1) {
  PIP_Problem x(3); x.add_constraint(K(2) * A + K(3) * B >= K(7)); x.add_constraint(A - C <= K(2)); x.add_constraint(B + C >= K(1)); x.add_constraint(K(2) * C <= K(9)); PIP_Problem xf(x);
  faulted(r, [&] { (void) x.solve(); PIP_Tree t = x.solution(); if (t != 0) (void) t->OK(); });
  usable(r, x, xf, "x");
}


// ---- copies of SOLVED problems: the solution tree (PIP) / the cached tableau and last generator (MIP) are cloned --------
// tree shapes: 0 solution node only; 1 decision node with a true child only; 2 decision node with both children;
//              3 nested decision nodes with artificial parameters
// (the library represents "if c then S else no solution" as the solution node S guarded by the constraint c, not as a decision node)
static PIP_Problem pip_shape(int shape) {
  PIP_Problem p(shape == 3 ? 3 : 2);
  if (shape == 0) { p.add_constraint(K(2) * A + B >= K(3)); p.add_constraint(B >= A); }               // no parameters
  else if (shape == 1) { p.add_to_parameter_space_dimensions(Variables_Set(B)); p.add_constraint(K(2) * A <= B - K(2)); p.add_constraint(A >= K(1)); }   // x = 1 if p >= 4, else no solution
  else if (shape == 2) { p.add_to_parameter_space_dimensions(Variables_Set(B)); p.add_constraint(A >= B - K(3)); }                      // x = max(0, p - 3)
  else { p.add_to_parameter_space_dimensions(Variables_Set(B, C)); p.add_constraint(K(2) * A >= B); p.add_constraint(A >= C - K(3)); p.add_constraint(K(3) * A <= B + K(2) * C + K(7)); }
  (void) p.solve();
  return p;
}
struct Tree_Shape { int decisions, both, true_only, max_depth, artificials; };
static void tree_shape(const PIP_Tree_Node* t, int depth, Tree_Shape& sh) {
  if (t == 0) return;
  for (PIP_Tree_Node::Artificial_Parameter_Sequence::const_iterator i = t->art_parameter_begin(); i != t->art_parameter_end(); ++i) ++sh.artificials;
  const PIP_Decision_Node* d = t->as_decision();
  if (d == 0) return;
  ++sh.decisions; if (depth + 1 > sh.max_depth) sh.max_depth = depth + 1;
  if (d->child_node(true) != 0 && d->child_node(false) != 0) ++sh.both; else if (d->child_node(true) != 0) ++sh.true_only;
  tree_shape(d->child_node(true), depth + 1, sh); tree_shape(d->child_node(false), depth + 1, sh);
}
static void expect_shape(Run& r, const PIP_Problem& p, int shape) {
  Tree_Shape sh = { 0, 0, 0, 0, 0 };
  tree_shape(p.solution(), 0, sh);
  bool ok = shape == 0 ? sh.decisions == 0 : shape == 1 ? (sh.decisions == 0 && p.solution() != 0 && !p.solution()->constraints().empty()) : shape == 2 ? sh.both >= 1 : (sh.max_depth >= 2 && sh.artificials >= 1);
  if (!ok) r.problem("harness", "solution tree does not have the intended shape " + std::to_string(shape) + ": decisions=" + std::to_string(sh.decisions) + " both=" + std::to_string(sh.both)
                     + " true_only=" + std::to_string(sh.true_only) + " depth=" + std::to_string(sh.max_depth) + " artificial=" + std::to_string(sh.artificials));
}
#define SCN_PIPSH(name, site) \
  template <int SH> static void C14_CAT(scn_t_, __LINE__)(Run& r); \
  static Reg C14_CAT(reg_a_, __LINE__)("PIP_Problem::" name "/solved:solution node only", "PIP_Problem::" site, 0, &C14_CAT(scn_t_, __LINE__)<0>); \
  static Reg C14_CAT(reg_b_, __LINE__)("PIP_Problem::" name "/solved:guarded solution node (else: no solution)", "PIP_Problem::" site, 0, &C14_CAT(scn_t_, __LINE__)<1>); \
  static Reg C14_CAT(reg_c_, __LINE__)("PIP_Problem::" name "/solved:decision node, both children", "PIP_Problem::" site, 0, &C14_CAT(scn_t_, __LINE__)<2>); \
  static Reg C14_CAT(reg_d_, __LINE__)("PIP_Problem::" name "/solved:nested decisions, artificial parameters", "PIP_Problem::" site, 0, &C14_CAT(scn_t_, __LINE__)<3>); \
  template <int SH> static void C14_CAT(scn_t_, __LINE__)(Run& r)

SCN_PIPSH("PIP_Problem(copy)", "PIP_Problem(copy)") {
  PIP_Problem x = pip_shape(SH); PIP_Problem xf(x); expect_shape(r, x, SH);
  faulted(r, [&] { PIP_Problem z(x); if (!z.OK()) r.problem("not_ok", "copy-constructed problem"); });
  usable(r, x, xf, "x");
}
SCN_PIPSH("operator=", "operator=") {
  PIP_Problem x = pip_shape(SH); PIP_Problem xf(x); expect_shape(r, x, SH);
  PIP_Problem y = pip_shape((SH + 2) % 4); PIP_Problem yf(y);
  faulted(r, [&] { y = x; });
  usable(r, y, yf, "y"); usable(r, x, xf, "x");
}
SCN_PIPSH("copy+swap+solve", "m_swap") {
  PIP_Problem x = pip_shape(SH); PIP_Problem xf(x); expect_shape(r, x, SH);
  PIP_Problem y(1); PIP_Problem yf(y);
  faulted(r, [&] { PIP_Problem z(x); z.m_swap(y); (void) y.solve(); y.add_constraint(A <= K(50)); (void) y.solve(); });
  usable(r, y, yf, "y"); usable(r, x, xf, "x");
}
SCN_PIPSH("solution()->clone()", "PIP_Tree_Node::clone") {
  PIP_Problem x = pip_shape(SH); PIP_Problem xf(x); expect_shape(r, x, SH);
  faulted(r, [&] { PIP_Tree t = x.solution(); if (t != 0) { PIP_Tree_Node* c = t->clone(); delete c; } });
  usable(r, x, xf, "x");
}

// MIP problems with cached solutions: 0 LP optimized, 1 MIP optimized (branch and bound), 2 unfeasible, 3 unbounded
static MIP_Problem mip_solved(int kind) {
  MIP_Problem m(2);
  m.add_constraint(A >= 0); m.add_constraint(B >= 0);
  if (kind == 2) { m.add_constraint(A + B <= K(1)); m.add_constraint(A >= K(2)); }
  else if (kind == 3) m.add_constraint(A - B <= K(1));
  else { m.add_constraint(K(2) * A + B <= K(9)); m.add_constraint(K(2) * A + K(6) * B <= K(15)); }
  m.set_objective_function(A + B);
  if (kind == 1) { Variables_Set iv; iv.insert(A); iv.insert(B); m.add_to_integer_space_dimensions(iv); }
  (void) m.solve();
  return m;
}
#define SCN_MIPSOL(name, site) \
  template <int KD> static void C14_CAT(scn_t_, __LINE__)(Run& r); \
  static Reg C14_CAT(reg_a_, __LINE__)("MIP_Problem::" name "/solved:lp optimized", "MIP_Problem::" site, 0, &C14_CAT(scn_t_, __LINE__)<0>); \
  static Reg C14_CAT(reg_b_, __LINE__)("MIP_Problem::" name "/solved:mip optimized", "MIP_Problem::" site, 0, &C14_CAT(scn_t_, __LINE__)<1>); \
  static Reg C14_CAT(reg_c_, __LINE__)("MIP_Problem::" name "/solved:unfeasible", "MIP_Problem::" site, 0, &C14_CAT(scn_t_, __LINE__)<2>); \
  static Reg C14_CAT(reg_d_, __LINE__)("MIP_Problem::" name "/solved:unbounded", "MIP_Problem::" site, 0, &C14_CAT(scn_t_, __LINE__)<3>); \
  template <int KD> static void C14_CAT(scn_t_, __LINE__)(Run& r)
SCN_MIPSOL("MIP_Problem(copy)", "MIP_Problem(copy)") {
  MIP_Problem x = mip_solved(KD); MIP_Problem xf(x);
  faulted(r, [&] { MIP_Problem z(x); if (!z.OK()) r.problem("not_ok", "copy-constructed problem"); if (KD <= 1) (void) z.optimizing_point(); });
  usable(r, x, xf, "x");
}
SCN_MIPSOL("operator=", "operator=") {
  MIP_Problem x = mip_solved(KD); MIP_Problem xf(x);
  MIP_Problem y = mip_solved((KD + 1) % 4); MIP_Problem yf(y);
  faulted(r, [&] { y = x; });
  usable(r, y, yf, "y"); usable(r, x, xf, "x");
}
SCN_MIPSOL("copy+swap+extend+solve", "m_swap") {
  MIP_Problem x = mip_solved(KD); MIP_Problem xf(x);
  MIP_Problem y(1); MIP_Problem yf(y);
  faulted(r, [&] { MIP_Problem z(x); z.m_swap(y); y.add_constraint(A <= K(3)); (void) y.solve(); });
  usable(r, y, yf, "y"); usable(r, x, xf, "x");
}

} // namespace c14

// Stand-alone reproduction: Weightwatch_Traits::less_than(a, a) is true (reflexive).
#include "ppl-config.h"
#include "globals_defs.hh"
#include "Threshold_Watcher_defs.hh"
#include <cstdio>
using namespace Parma_Polyhedra_Library;
typedef Threshold_Watcher<Weightwatch_Traits> WW;
static int fired; static void f() { ++fired; }
int main() {
  { WW w(0, f); puts("delta 0 (threshold == current weight): no 'threshold already reached' exception"); }
  { WW a(1, f); Weightwatch_Traits::weight += 1; maybe_abandon();
    printf("weight == threshold at the check: fired=%d (expected 1)\n", fired);
    Weightwatch_Traits::weight += 1; maybe_abandon(); printf("weight == threshold+1: fired=%d\n", fired); }
  { WW a(1, f), b(1, f); printf("two equal thresholds: Pending_List::OK() = %d (expected 1)\n", (int)WW::init.pending.OK()); }
}

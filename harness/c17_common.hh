// C17 -- integer-aware operators: shared declarations of the harness (harness/c17_*.cc).
//
// The main translation unit (c17_main.cc) owns the menus, the enumeration of integer points and the
// oracle; the c17_dom_*.cc units only adapt the PPL domains to the type-erased `Subject' interface
// (build an element through a given lazy state, call the operator under test, read the element
// back through its printed description constraints()/congruences()).
#ifndef VERIF_C17_COMMON_HH
#define VERIF_C17_COMMON_HH 1

#include "engine/ppl_ref.hh"
#include <gmpxx.h>
#include <type_traits>

namespace c17 {

typedef mpz_class Z;
static_assert(std::is_same<PPL::Coefficient, mpz_class>::value, "C17 harness expects GMP coefficients (prod variant)");

// a printed constraint   a.x + b {=, >=, >} 0   (integer coefficients, exactly as printed by PPL)
struct IRow { std::vector<Z> a; Z b; int k; };
// a printed congruence   a.x + b == 0 (mod m)   (m == 0: equality)
struct ICong { std::vector<Z> a; Z b, m; };
// a printed grid generator: 'p' point, 'q' parameter, 'l' line; coordinates v/d
struct GGen { char t; std::vector<Z> v; Z d; };
struct Disj { std::vector<IRow> rows; std::vector<ICong> congs; };
// description of an element: union of disjuncts, each the conjunction of rows and congruences
struct Desc {
  int n; bool empty_flag; std::vector<Disj> d; std::vector<GGen> gg; bool has_gg;
  Desc() : n(0), empty_flag(false), has_gg(false) {}
};

// PPL-level recipe of one argument (for one width)
struct Built {
  int n;
  std::vector<PPL::Constraint_System> cs;   // disjuncts by constraints (>= 1)
  std::vector<PPL::Generator_System> gs;    // the closures of the same disjuncts by generators (no generator: empty)
  PPL::Congruence_System cgs;               // grids / products
  Built() : n(0) {}
};

struct WrapCall {
  PPL::Variables_Set vars;
  PPL::Bounded_Integer_Type_Width w;
  PPL::Bounded_Integer_Type_Representation r;
  PPL::Bounded_Integer_Type_Overflow o;
  const PPL::Constraint_System* cs_p;
  unsigned thr; bool ind;
};

struct Subject {
  virtual ~Subject() {}
  virtual void describe(Desc& out, bool want_gg) const = 0;
  virtual std::string print() const = 0;
  virtual void wrap(const WrapCall&) = 0;
  virtual void drop_all(PPL::Complexity_Class) = 0;
  virtual void drop_vars(const PPL::Variables_Set&, PPL::Complexity_Class) = 0;
  virtual bool cip() const = 0;
};

enum Kind { K_ROWS = 0, K_GRID = 1, K_POWERSET = 2, K_PRODUCT = 3 };

struct Domain {
  std::string name; int kind; int modes; bool has_wrap, has_cip; bool is_box;
  int extra_from;      // lazy states >= extra_from get the reduced threshold set {2,16} in the quick tier
  bool ignores_thr;    // the domain's wrap_assign ignores complexity_threshold / wrap_individually (quick tier: thresholds {0,16})
  Domain() : kind(K_ROWS), modes(1), has_wrap(true), has_cip(true), is_box(false), extra_from(1000), ignores_thr(false) {}
  virtual ~Domain() {}
  virtual Subject* build(const Built&, int mode) const = 0;
  virtual const char* mode_name(int mode) const = 0;
};

// ---- helpers shared by the adapters --------------------------------------------------------------
inline void read_rows(const PPL::Constraint_System& cs, int n, Disj& out) {
  for (PPL::Constraint_System::const_iterator i = cs.begin(), e = cs.end(); i != e; ++i) {
    IRow r; r.a.assign(n, Z(0));
    int sd = (int)i->space_dimension();
    for (int j = 0; j < n && j < sd; ++j) r.a[j] = i->coefficient(PPL::Variable(j));
    r.b = i->inhomogeneous_term();
    r.k = i->is_equality() ? ref::EQ : i->is_strict_inequality() ? ref::GT : ref::GE;
    out.rows.push_back(r);
  }
}
inline void read_congs(const PPL::Congruence_System& cgs, int n, Disj& out) {
  for (PPL::Congruence_System::const_iterator i = cgs.begin(), e = cgs.end(); i != e; ++i) {
    ICong c; c.a.assign(n, Z(0));
    int sd = (int)i->space_dimension();
    for (int j = 0; j < n && j < sd; ++j) c.a[j] = i->coefficient(PPL::Variable(j));
    c.b = i->inhomogeneous_term();
    c.m = i->modulus();
    out.congs.push_back(c);
  }
}
inline void read_ggens(const PPL::Grid_Generator_System& gs, int n, std::vector<GGen>& out) {
  for (PPL::Grid_Generator_System::const_iterator i = gs.begin(), e = gs.end(); i != e; ++i) {
    GGen g; g.v.assign(n, Z(0)); g.d = 1;
    g.t = i->is_point() ? 'p' : i->is_parameter() ? 'q' : 'l';
    int sd = (int)i->space_dimension();
    for (int j = 0; j < n && j < sd; ++j) g.v[j] = i->coefficient(PPL::Variable(j));
    if (g.t != 'l') g.d = i->divisor();
    out.push_back(g);
  }
}

// the adapters, one vector per translation unit
std::vector<Domain*> domains_poly();    // C_Polyhedron, NNC_Polyhedron, Pointset_Powerset<C_Polyhedron>, Grid, product
std::vector<Domain*> domains_box();     // Rational_Box, Z_Box
std::vector<Domain*> domains_bds();     // BD_Shape<mpq_class>, BD_Shape<mpz_class>
std::vector<Domain*> domains_oct();     // Octagonal_Shape<mpq_class>, Octagonal_Shape<mpz_class>

} // namespace c17
#endif

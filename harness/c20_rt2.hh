// C20 -- roles for handles that are not free-standing objects: iterators into systems / powersets,
// nodes and artificial parameters of PIP solution trees.
#ifndef VERIF_C20_RT2_HH
#define VERIF_C20_RT2_HH 1
#include "harness/c20_rt.hh"
#include <functional>

namespace c20 {

// position of an iterator inside its own container (number of steps from begin(); -1 = not found)
template <class It> inline long pos_of(const It& it, It b, const It& e) {
  long n = 0;
  for (; !(b == e); ++b, ++n) if (b == it) return n;
  return (it == e) ? n : -1;
}
template <class C> struct ItOf { typedef typename C::const_iterator type; static type b(C& c) { return static_cast<const C&>(c).begin(); } static type e(C& c) { return static_cast<const C&>(c).end(); } };
template <class C> struct MutItOf { typedef typename C::iterator type; static type b(C& c) { return c.begin(); } static type e(C& c) { return c.end(); } };

enum ItFlags { IT_ANY = 0, IT_DEREF = 1 /* not end */, IT_NOTBEGIN = 2 /* can be decremented */, IT_DEL = 4, IT_SCRATCH = 8 /* default constructed, overwritten by the call */ };

// one iterator into its own container (C side and twin have their own, identically built containers)
template <class C, class Tr = ItOf<C> > struct Iter : Arg {
  typedef typename Tr::type It;
  int flags;
  C* cc; C* tc; It* ci; It* ti;
  std::vector<std::pair<int, int> > menu;   // (container index, position)
  Iter(Run& R, const char* pn, int fl = IT_ANY) : flags(fl), cc(0), tc(0), ci(0), ti(0) {
    R.add(this, pn);
    int nc = Menu<C>::count(); if (nc > 4) nc = 4;
    for (int k = 0; k < nc; ++k) {
      C* c = Menu<C>::make(k);
      long sz = 0; for (It b = Tr::b(*c), e = Tr::e(*c); !(b == e); ++b) ++sz;
      delete c;
      if (flags & IT_SCRATCH) { menu.push_back(std::make_pair(k, 0)); break; }
      for (long p = 0; p <= sz && p <= 2; ++p) {
        if ((flags & IT_DEREF) && p == sz) continue;
        if ((flags & IT_NOTBEGIN) && p == 0) continue;
        menu.push_back(std::make_pair(k, (int)p));
      }
    }
  }
  int count() const { return (int)menu.size(); }
  void build(int i) {
    cc = Menu<C>::make(menu[i].first); tc = Menu<C>::make(menu[i].first);
    if (flags & IT_SCRATCH) { ci = new It(); ti = new It(); return; }
    It a = Tr::b(*cc), b = Tr::b(*tc);
    for (int k = 0; k < menu[i].second; ++k) { ++a; ++b; }
    ci = new It(a); ti = new It(b);
  }
  void destroy() { delete ci; delete ti; delete cc; delete tc; ci = ti = 0; cc = tc = 0; }
  void* p() { return ci; }
  It& t() { return *ti; }
  It& cit() { return *ci; }
  C& ccont() { return *cc; }
  C& tcont() { return *tc; }
  void cgone() { ci = 0; }
  void check(Run& R, bool) {
    if (!ci || (flags & (IT_SCRATCH | IT_DEL))) return;
    long a = pos_of(*ci, Tr::b(*cc), Tr::e(*cc)), b = pos_of(*ti, Tr::b(*tc), Tr::e(*tc));
    if (a != b) R.fail("capi:result-differs", std::string(pname) + " at position " + itos(a), "position " + itos(b));
  }
  std::string show() const { return "iterator at " + itos(menu[cur].second) + " of " + Menu<C>::lab(menu[cur].first); }
};

// two iterators into the same container (equal_test, assign, ranges)
template <class C, class Tr = ItOf<C> > struct IterPair : Arg {
  typedef typename Tr::type It;
  C* cc; C* tc; It* c1; It* c2; It* t1p; It* t2p;
  std::vector<int> menu;   // k*16 + p1*4 + p2
  bool ordered;
  IterPair(Run& R, const char* pn, bool ord = false) : cc(0), tc(0), c1(0), c2(0), t1p(0), t2p(0), ordered(ord) {
    R.add(this, pn);
    int nc = Menu<C>::count(); if (nc > 3) nc = 3;
    for (int k = 0; k < nc; ++k) {
      C* c = Menu<C>::make(k);
      long sz = 0; for (It b = Tr::b(*c), e = Tr::e(*c); !(b == e); ++b) ++sz;
      delete c;
      for (long p = 0; p <= sz && p <= 2; ++p) for (long q = 0; q <= sz && q <= 2; ++q) { if (ordered && q < p) continue; menu.push_back(k * 16 + (int)p * 4 + (int)q); }
    }
  }
  int count() const { return (int)menu.size(); }
  void build(int i) {
    int k = menu[i] / 16, p = (menu[i] / 4) % 4, q = menu[i] % 4;
    cc = Menu<C>::make(k); tc = Menu<C>::make(k);
    It a = Tr::b(*cc), b = Tr::b(*tc); for (int j = 0; j < p; ++j) { ++a; ++b; }
    c1 = new It(a); t1p = new It(b);
    a = Tr::b(*cc); b = Tr::b(*tc); for (int j = 0; j < q; ++j) { ++a; ++b; }
    c2 = new It(a); t2p = new It(b);
  }
  void destroy() { delete c1; delete c2; delete t1p; delete t2p; delete cc; delete tc; c1 = c2 = t1p = t2p = 0; cc = tc = 0; }
  void* p1() { return c1; } void* p2() { return c2; }
  It& t1() { return *t1p; } It& t2() { return *t2p; }
  C& ccont() { return *cc; } C& tcont() { return *tc; }
  void check(Run& R, bool) {
    long a = pos_of(*c1, Tr::b(*cc), Tr::e(*cc)), b = pos_of(*t1p, Tr::b(*tc), Tr::e(*tc));
    long c = pos_of(*c2, Tr::b(*cc), Tr::e(*cc)), d = pos_of(*t2p, Tr::b(*tc), Tr::e(*tc));
    if (a != b || c != d) R.fail("capi:result-differs", "iterators at " + itos(a) + "," + itos(c), itos(b) + "," + itos(d));
  }
  std::string show() const { return "iterators at " + itos((menu[cur] / 4) % 4) + "," + itos(menu[cur] % 4) + " of " + Menu<C>::lab(menu[cur] / 16); }
};

// out handle of a new iterator
struct IterNew : Arg {
  void* slot; DelFn del;
  IterNew(Run& R, const char* pn, DelFn d) : slot(0), del(d) { R.add(this, pn); }
  int count() const { return 1; }
  void build(int) { slot = 0; }
  void destroy() { if (slot && del) del(slot); slot = 0; }
  void** pp() { return &slot; }
  void check(Run& R, bool threw) { if (!threw && !slot) R.fail("capi:out-handle-unset", std::string("*") + pname + " not written", "handle of a new iterator"); }
  std::string show() const { return "(out: new iterator)"; }
};

// a powerset together with iterator(s) into it (drop_disjunct, drop_disjuncts)
template <class PS> struct PsIters : Arg {
  typedef typename PS::iterator It;
  PS* cc; PS* tc; It* c1; It* c2; It* t1p; It* t2p; It* cout_; It* tout_;
  std::vector<int> menu; bool range;
  PsIters(Run& R, const char* pn, bool rng) : cc(0), tc(0), c1(0), c2(0), t1p(0), t2p(0), cout_(0), tout_(0), range(rng) {
    R.add(this, pn);
    int nc = Menu<PS>::count();
    for (int k = 0; k < nc; ++k) {
      PS* c = Menu<PS>::make(k); long sz = (long)c->size(); delete c;
      for (long p = 0; p <= sz && p <= 2; ++p) {
        if (!range) { if (p < sz) menu.push_back(k * 16 + (int)p * 4); }
        else for (long q = p; q <= sz && q <= 2; ++q) menu.push_back(k * 16 + (int)p * 4 + (int)q);
      }
    }
  }
  int count() const { return (int)menu.size(); }
  void build(int i) {
    int k = menu[i] / 16, p = (menu[i] / 4) % 4, q = menu[i] % 4;
    cc = Menu<PS>::make(k); tc = Menu<PS>::make(k);
    It a = cc->begin(), b = tc->begin(); for (int j = 0; j < p; ++j) { ++a; ++b; }
    c1 = new It(a); t1p = new It(b);
    a = cc->begin(); b = tc->begin(); for (int j = 0; j < q; ++j) { ++a; ++b; }
    c2 = new It(a); t2p = new It(b);
    cout_ = new It(); tout_ = new It();
  }
  void destroy() { delete c1; delete c2; delete t1p; delete t2p; delete cout_; delete tout_; delete cc; delete tc; cc = tc = 0; c1 = c2 = t1p = t2p = cout_ = tout_ = 0; }
  void* ps() { return cc; } void* p1() { return c1; } void* p2() { return c2; } void* pout() { return cout_; }
  PS& t() { return *tc; } It& t1() { return *t1p; } It& t2() { return *t2p; } It& tout() { return *tout_; }
  void check(Run& R, bool threw) {
    std::string a = dump(*cc), b = dump(*tc);
    if (a != b) R.fail("capi:result-differs", brief(a), brief(b));
    if (!range && !threw) {
      long x = pos_of(*cout_, cc->begin(), cc->end()), y = pos_of(*tout_, tc->begin(), tc->end());
      if (x != y) R.fail("capi:result-differs", "returned iterator at " + itos(x), itos(y));
    }
  }
  std::string show() const { return "disjunct " + itos((menu[cur] / 4) % 4) + (range ? ".." + itos(menu[cur] % 4) : std::string()) + " of " + Menu<PS>::lab(menu[cur] / 16); }
};

// ------------------------------------------------------------------------------------------------
// PIP solution trees
// ------------------------------------------------------------------------------------------------
struct PipSide {
  PIP_Problem* pip; std::vector<const PIP_Tree_Node*> nodes;
  PipSide() : pip(0) {}
  static void walk(const PIP_Tree_Node* n, std::vector<const PIP_Tree_Node*>& out) {
    if (!n || out.size() >= 7) return;
    out.push_back(n);
    if (const PIP_Decision_Node* d = n->as_decision()) { walk(d->child_node(true), out); walk(d->child_node(false), out); }
  }
  void make(int k) { pip = Menu<PIP_Problem>::make(k); nodes.clear(); if (pip->is_satisfiable()) walk(pip->solution(), nodes); }
  void clear() { delete pip; pip = 0; nodes.clear(); }
};

enum NodeSel { N_ANY, N_SOL, N_DEC, N_ART /* has artificial parameters */ };

// const handle to a node of the solution tree of a solved problem (kind: any / solution / decision)
struct Node : Arg {
  NodeSel sel; PipSide c, t_; int ni;
  std::vector<std::pair<int, int> > menu;
  Node(Run& R, const char* pn, NodeSel s) : sel(s), ni(0) {
    R.add(this, pn);
    for (int k = 0; k < Menu<PIP_Problem>::count(); ++k) {
      PipSide s2; s2.make(k);
      for (size_t j = 0; j < s2.nodes.size(); ++j) {
        const PIP_Tree_Node* n = s2.nodes[j];
        bool ok = sel == N_ANY || (sel == N_SOL && n->as_solution()) || (sel == N_DEC && n->as_decision()) || (sel == N_ART && n->art_parameter_count() > 0);
        if (ok) menu.push_back(std::make_pair(k, (int)j));
      }
      s2.clear();
    }
  }
  int count() const { return (int)menu.size(); }
  void build(int i) { c.make(menu[i].first); t_.make(menu[i].first); ni = menu[i].second; }
  void destroy() { c.clear(); t_.clear(); }
  const PIP_Tree_Node* cn() const { return c.nodes[ni]; }
  const PIP_Tree_Node* tn() const { return t_.nodes[ni]; }
  void* p() { return sel == N_SOL ? (void*)cn()->as_solution() : sel == N_DEC ? (void*)cn()->as_decision() : (void*)cn(); }
  const PIP_Tree_Node& t() { return *tn(); }
  const PIP_Solution_Node& tsol() { return *tn()->as_solution(); }
  const PIP_Decision_Node& tdec() { return *tn()->as_decision(); }
  void check(Run& R, bool) {
    std::string a = dump(*c.pip), b = dump(*t_.pip);
    if (a != b) R.fail("capi:const-handle-modified", "PIP problem owning the node changed", "same as twin");
  }
  std::string show() const { return "node " + itos(menu[cur].second) + " of " + Menu<PIP_Problem>::lab(menu[cur].first); }
};

// mutable clone of a node (ascii_load)
struct NodeClone : Arg {
  NodeSel sel; Node* src; PIP_Tree_Node* cc; PIP_Tree_Node* tc;
  Run dummy;
  NodeClone(Run& R, const char* pn, NodeSel s) : sel(s), cc(0), tc(0), dummy("", "", "", 0, 0) { src = new Node(dummy, "src", s); R.add(this, pn); }
  ~NodeClone() { delete src; }
  int count() const { int n = src->count(); return n > 3 ? 3 : n; }
  void build(int i) { src->cur = i; src->build(i); cc = src->cn()->clone(); tc = src->tn()->clone(); }
  void destroy() { delete cc; delete tc; cc = tc = 0; src->destroy(); }
  void* p() { return sel == N_SOL ? (void*)const_cast<PIP_Solution_Node*>(cc->as_solution()) : sel == N_DEC ? (void*)const_cast<PIP_Decision_Node*>(cc->as_decision()) : (void*)cc; }
  PIP_Tree_Node& t() { return *tc; }
  void check(Run& R, bool) { std::string a = dump(*cc), b = dump(*tc); if (a != b) R.fail("capi:result-differs", brief(a), brief(b)); }
  std::string show() const { return "clone of " + src->show(); }
};

// const handle to an artificial parameter / iterators over the artificial parameters of a node
struct ArtPar : Arg {
  Node* src; int k; std::vector<std::pair<int, int> > menu; Run dummy;
  ArtPar(Run& R, const char* pn) : k(0), dummy("", "", "", 0, 0) {
    src = new Node(dummy, "src", N_ART); R.add(this, pn);
    for (int i = 0; i < src->count(); ++i) { src->build(i); int n = (int)src->cn()->art_parameter_count(); src->destroy(); for (int j = 0; j < n && j < 2; ++j) menu.push_back(std::make_pair(i, j)); }
  }
  ~ArtPar() { delete src; }
  int count() const { return (int)menu.size(); }
  void build(int i) { src->cur = menu[i].first; src->build(menu[i].first); k = menu[i].second; }
  void destroy() { src->destroy(); }
  void* p() { return (void*)&*(src->cn()->art_parameter_begin() + k); }
  const PIP_Tree_Node::Artificial_Parameter& t() { return *(src->tn()->art_parameter_begin() + k); }
  std::string show() const { return "artificial parameter " + itos(k) + " of " + src->show(); }
};

struct ArtTr {
  typedef PIP_Tree_Node::Artificial_Parameter_Sequence::const_iterator type;
};
// iterator over the artificial parameters of a node; flags as for Iter
struct ArtIter : Arg {
  typedef ArtTr::type It;
  Node* src; int flags; It* ci; It* ti; std::vector<std::pair<int, int> > menu; Run dummy;
  ArtIter(Run& R, const char* pn, int fl) : flags(fl), ci(0), ti(0), dummy("", "", "", 0, 0) {
    src = new Node(dummy, "src", N_ANY); R.add(this, pn);
    for (int i = 0; i < src->count(); ++i) {
      src->build(i); int n = (int)src->cn()->art_parameter_count(); src->destroy();
      if (flags & IT_SCRATCH) { menu.push_back(std::make_pair(i, 0)); continue; }
      for (int j = 0; j <= n && j <= 2; ++j) { if ((flags & IT_DEREF) && j == n) continue; menu.push_back(std::make_pair(i, j)); }
    }
  }
  ~ArtIter() { delete src; }
  int count() const { return (int)menu.size(); }
  void build(int i) {
    src->cur = menu[i].first; src->build(menu[i].first);
    if (flags & IT_SCRATCH) { ci = new It(); ti = new It(); return; }
    ci = new It(src->cn()->art_parameter_begin() + menu[i].second); ti = new It(src->tn()->art_parameter_begin() + menu[i].second);
  }
  void destroy() { delete ci; delete ti; ci = ti = 0; src->destroy(); }
  void* p() { return ci; }
  It& t() { return *ti; }
  It& cit() { return *ci; }
  void cgone() { ci = 0; }
  void check(Run& R, bool) {
    if (!ci || (flags & (IT_SCRATCH | IT_DEL))) return;
    long a = *ci - src->cn()->art_parameter_begin(), b = *ti - src->tn()->art_parameter_begin();
    if (a != b) R.fail("capi:result-differs", "iterator at " + itos(a), itos(b));
  }
  std::string show() const { return "art. iterator at " + itos(menu[cur].second) + " of " + src->show(); }
};
struct ArtIterPair : Arg {
  typedef ArtTr::type It;
  Node* src; It* c1; It* c2; It* t1p; It* t2p; std::vector<int> menu; Run dummy;
  ArtIterPair(Run& R, const char* pn) : c1(0), c2(0), t1p(0), t2p(0), dummy("", "", "", 0, 0) {
    src = new Node(dummy, "src", N_ANY); R.add(this, pn);
    for (int i = 0; i < src->count(); ++i) {
      src->build(i); int n = (int)src->cn()->art_parameter_count(); src->destroy();
      for (int p = 0; p <= n && p <= 1; ++p) for (int q = 0; q <= n && q <= 1; ++q) menu.push_back(i * 16 + p * 4 + q);
    }
  }
  ~ArtIterPair() { delete src; }
  int count() const { return (int)menu.size(); }
  void build(int i) {
    int k = menu[i] / 16, p = (menu[i] / 4) % 4, q = menu[i] % 4;
    src->cur = k; src->build(k);
    c1 = new It(src->cn()->art_parameter_begin() + p); t1p = new It(src->tn()->art_parameter_begin() + p);
    c2 = new It(src->cn()->art_parameter_begin() + q); t2p = new It(src->tn()->art_parameter_begin() + q);
  }
  void destroy() { delete c1; delete c2; delete t1p; delete t2p; c1 = c2 = t1p = t2p = 0; src->destroy(); }
  void* p1() { return c1; } void* p2() { return c2; }
  It& t1() { return *t1p; } It& t2() { return *t2p; }
  void check(Run& R, bool) {
    long a = *c1 - src->cn()->art_parameter_begin(), b = *t1p - src->tn()->art_parameter_begin();
    if (a != b) R.fail("capi:result-differs", "iterator at " + itos(a), itos(b));
  }
  std::string show() const { return "art. iterators " + itos((menu[cur] / 4) % 4) + "," + itos(menu[cur] % 4) + " of node " + itos(menu[cur] / 16); }
};


// ---- more small roles ---------------------------------------------------------------------------
template <> struct Menu<PIP_Tree_Node::Artificial_Parameter> {
  typedef PIP_Tree_Node::Artificial_Parameter AP;
  static int count() { return 3; }
  static AP* make(int i) { switch (i) { case 0: return new AP(vA() + 1, 2); case 1: return new AP(Linear_Expression(vB()), 3); default: return new AP(); } }
  static std::string lab(int i) { static const char* v[] = {"(A+1)/2", "B/3", "zero"}; return v[i]; }
  static std::string trig(int) { return ""; }
};

struct CStrOut : Arg {
  const char* c; const char* t;
  CStrOut(Run& R, const char* pn) : c(0), t(0) { R.add(this, pn); }
  int count() const { return 1; }
  void build(int) { c = 0; t = 0; }
  void destroy() {}
  const char** p() { return &c; }
  void check(Run& R, bool threw) { if (threw) return; if (!c || !t || strcmp(c, t) != 0) R.fail("capi:result-differs", c ? brief(c) : "null", t ? brief(t) : "null"); }
  std::string show() const { return "(out)"; }
};

// out handle of a tree node: compared through the dump text of the twin's node ("(null)" for no node)
struct NodeOut : Arg {
  void* slot; std::string t;
  NodeOut(Run& R, const char* pn) : slot(0) { R.add(this, pn); }
  int count() const { return 1; }
  void build(int) { slot = reinterpret_cast<void*>(0x1); t.clear(); }
  void destroy() {}
  void** pp() { return &slot; }
  void check(Run& R, bool threw) {
    if (threw) return;
    if (slot == reinterpret_cast<void*>(0x1)) { R.fail("capi:out-handle-unset", std::string("*") + pname + " not written", "handle of the solution tree"); return; }
    std::string a = slot ? dump(*static_cast<const PIP_Tree_Node*>(slot)) : std::string("(null)");
    if (a != t) R.fail("capi:result-differs", brief(a), brief(t));
  }
  std::string show() const { return "(out node)"; }
};
struct NullnessOut : Arg {
  void* slot; bool t;
  NullnessOut(Run& R, const char* pn) : slot(0), t(false) { R.add(this, pn); }
  int count() const { return 1; }
  void build(int) { slot = reinterpret_cast<void*>(0x1); t = false; }
  void destroy() {}
  void** pp() { return &slot; }
  void check(Run& R, bool threw) {
    if (threw) return;
    if (slot == reinterpret_cast<void*>(0x1)) { R.fail("capi:out-handle-unset", std::string("*") + pname + " not written", "handle or null"); return; }
    if ((slot != 0) != t) R.fail("capi:result-differs", slot ? "non-null handle" : "null handle", t ? "non-null" : "null");
  }
  std::string show() const { return "(out node)"; }
};

// text to be loaded into a node: the dump of a node of the right kind, truncated text, garbage
struct NodeText : Arg {
  NodeSel sel; FILE* f; std::string text; std::istringstream* is_; Run dummy; Node* src;
  NodeText(Run& R, const char* pn, NodeSel s) : sel(s), f(0), is_(0), dummy("", "", "", 0, 0) { src = new Node(dummy, "src", s); R.add(this, pn); }
  ~NodeText() { delete src; }
  int count() const { return src->count() > 0 ? 3 : 1; }
  void build(int i) {
    text = "garbage 1 2\n";
    if (src->count() > 0 && i < 2) {
      src->build(0);
      std::ostringstream o;
      if (sel == N_SOL) src->cn()->as_solution()->ascii_dump(o); else if (sel == N_DEC) src->cn()->as_decision()->ascii_dump(o); else src->cn()->ascii_dump(o);
      src->destroy();
      text = o.str(); if (i == 1) text = text.substr(0, text.size() / 2);
    }
    f = tmpfile(); fwrite(text.data(), 1, text.size(), f); rewind(f);
    is_ = new std::istringstream(text);
  }
  void destroy() { if (f) fclose(f); f = 0; delete is_; is_ = 0; }
  FILE* p() { return f; }
  std::istream& t() { return *is_; }
  std::string show() const { return cur == 0 ? "dump of a node" : cur == 1 ? "truncated dump" : "garbage"; }
};

// (problem, valid constraint index)
template <class P> struct ProbIdx : Arg {
  P* c; P* tw; size_t idx; std::vector<std::pair<int, int> > menu;
  ProbIdx(Run& R, const char* pn) : c(0), tw(0), idx(0) {
    R.add(this, pn);
    for (int k = 0; k < Menu<P>::count(); ++k) { P* x = Menu<P>::make(k); long n = x->constraints_end() - x->constraints_begin(); delete x; for (long j = 0; j < n && j < 3; ++j) menu.push_back(std::make_pair(k, (int)j)); }
  }
  int count() const { return (int)menu.size(); }
  void build(int i) { c = Menu<P>::make(menu[i].first); tw = Menu<P>::make(menu[i].first); idx = menu[i].second; }
  void destroy() { delete c; delete tw; c = tw = 0; }
  void* p1() { return c; }
  size_t v2() const { return idx; }
  P& t() { return *tw; }
  void check(Run& R, bool) { if (dump(*c) != dump(*tw)) R.fail("capi:const-handle-modified", "problem changed", "same as twin"); }
  std::string show() const { return "constraint " + itos(menu[cur].second) + " of " + Menu<P>::lab(menu[cur].first); }
};


// ------------------------------------------------------------------------------------------------
// handle life cycles: create -> op -> delete, repeated; the number of live ::operator new blocks must be
// stationary (a leak grows it, a double free / mismatched delete is caught by AddressSanitizer)
// ------------------------------------------------------------------------------------------------
struct LifeSeq {
  Run& R;
  struct C { const char* name; std::function<int(void**)> f; };
  struct O { const char* name; std::function<int(void*)> f; };
  std::vector<C> cs; std::vector<O> os;
  explicit LifeSeq(Run& r) : R(r) {}
  void creator(const char* n, std::function<int(void**)> f) { C c = {n, f}; cs.push_back(c); }
  void op(const char* n, std::function<int(void*)> f) { O o = {n, f}; os.push_back(o); }
  void run(DelFn del) {
    long long sub = -1;
    for (size_t i = 0; i < cs.size(); ++i) for (size_t j = 0; j < os.size(); ++j) {
      ++sub;
      if (!vf::pool().want(sub, R.sub_start)) continue;
      if (G.args->expired()) { vf::count(vf::CNT_SKIPPED); return; }
      vf::pool().step(sub);
      std::string what = std::string(cs[i].name) + " -> " + os[j].name + " -> delete";
      if (G.desc) { std::string d = vf::J().str("fn", R.fname).str("sequence", what).str("trig", "none").done(); strncpy(G.desc, d.c_str(), 1500); }
      long live[4] = {0, 0, 0, 0};
      bool bad = false, skipped_creators = false;
      for (int round = 0; round < 4 && !bad; ++round) {
        void* h = 0;
        G.hcalls = 0;
        int rc = cs[i].f(&h);
        if (rc != 0 || !h) { bad = true; skipped_creators = true; break; }   // creator not applicable to this domain
        (void) os[j].f(h);      // an error return is fine: the handle must stay deletable
        G.hcalls = 0;
        int r3 = del(h);
        if (r3 != 0 || G.hcalls != 0) { R.fail("life:delete-failed", what + ": rc " + itos(r3) + ", handler calls " + itos(G.hcalls), "0"); bad = true; }
        live[round] = live_blocks();
      }
      if (skipped_creators) continue;
      vf::count(vf::CNT_TRANS); vf::count(CNT_LIFE); vf::count(CNT_NORMAL);
      if (G.covered) G.covered[R.item] = 1;
      if (!bad && live[3] != live[2])
        R.fail("life:leak", what + ": live blocks " + itos(live[2]) + " -> " + itos(live[3]) + " after one more round", "stationary");
    }
  }
};

// a raw out pointer that is neither compared nor released automatically
struct OutPtr : Arg {
  void* slot;
  OutPtr(Run& R, const char* pn) : slot(0) { R.add(this, pn); }
  int count() const { return 1; }
  void build(int) { slot = 0; }
  void destroy() { slot = 0; }
  void** pp() { return &slot; }
  std::string show() const { return "(out)"; }
};

} // namespace c20
#endif

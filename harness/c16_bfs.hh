// C16: level-synchronous parallel breadth-first search to closure over compact state keys.
// A Model provides:
//   typedef Obj;                                   the live object + its reference value
//   void initial(Obj&);                            state 0
//   bool apply(Obj&, uint32_t op, Fail* f);        apply `op` to implementation and reference in lock-step,
//                                                  compare; then canonicalise data.  false => violation (in *f)
//   std::string key(const Obj&);                   layout key
//   void ops(const Obj&, int id, std::vector<uint32_t>&);   enabled mutator alphabet in this state
//   long long lookups(Obj&, Fail* f);              all observers in this state; returns number of calls (<0: failed)
//   std::string op_name(uint32_t), site(uint32_t), layout_str(key)
// States are materialised by replaying their history through the public API (never by writing
// private members); every replay is compared with the stored key (determinism check), these are the
// "traces validated against the implementation".
#ifndef VERIF_C16_BFS_HH
#define VERIF_C16_BFS_HH 1
#include "engine/common.hh"
#include <unordered_map>
#include <unordered_set>
#include <memory>
#include <algorithm>
#include <fcntl.h>
#include <sys/stat.h>
#include <dirent.h>

namespace c16 {
using namespace vf;

struct Fail {
  std::string site, clause, trigger, observed, expected, detail;
  bool set;
  Fail() : trigger("none"), set(false) {}
  void put(const std::string& s, const std::string& c, const std::string& o, const std::string& e, const std::string& d = "", const std::string& t = "none") {
    if (set) return;
    set = true; site = s; clause = c; observed = o; expected = e; detail = d; trigger = t;
  }
};

enum { CNT_LOOKUPS = CNT_USER, CNT_REPLAYS = CNT_USER + 1, CNT_REPLAY_OPS = CNT_USER + 2, CNT_VIOL_TRANS = CNT_USER + 3, CNT_DUP = CNT_USER + 4, CNT_TRIG_TRANS = CNT_USER + 5, CNT_TRIG_VIOL = CNT_USER + 6 };

template <class M>
struct Explorer {
  M& model;
  Args& args;
  std::string tag;
  std::unordered_map<std::string, int> idx;
  std::vector<const std::string*> keys;
  std::vector<int> parent;
  std::vector<uint32_t> pop;
  std::vector<int> depth;
  std::vector<int> frontier;
  std::string tmpdir;
  bool complete;
  int levels;
  long long crashes;

  Explorer(M& m, Args& a, const std::string& t) : model(m), args(a), tag(t), complete(true), levels(0), crashes(0) {}

  std::vector<uint32_t> history(int id) const {
    std::vector<uint32_t> h;
    while (id > 0) { h.push_back(pop[id]); id = parent[id]; }
    std::reverse(h.begin(), h.end());
    return h;
  }
  std::string history_json(int id, bool codes) const {
    std::vector<uint32_t> h = history(id);
    std::string s = "[";
    for (size_t i = 0; i < h.size(); ++i) { if (i) s += ","; s += codes ? std::to_string(h[i]) : jstr(model.op_name(h[i])); }
    return s + "]";
  }
  std::string input_json(int id, uint32_t op, bool has_op) const {
    J j; j.str("model", tag).num("K", model.K).str("state_layout", model.layout_str(*keys[id]))
      .raw("history", history_json(id, false)).raw("history_codes", history_json(id, true));
    if (has_op) j.str("op", model.op_name(op)).num("op_code", op);
    return j.done();
  }
  void report(int id, uint32_t op, bool has_op, const Fail& f) {
    // global caps on emitted records (all workers); cases matching a known-finding trigger are counted apart
    if (f.trigger == "none") { count(CNT_VIOL); if (counter(CNT_VIOL) > 3000) return; }
    else { count(CNT_TRIG_VIOL); if (counter(CNT_TRIG_VIOL) > 300) return; }
    if (!violcap().admit(f.site + "|" + f.clause + "|" + f.trigger)) return;
    report_violation(f.site, f.clause, f.trigger, input_json(id, op, has_op), f.observed, f.expected, f.detail);
  }

  // materialise state `id` by replaying its history
  bool materialise(int id, typename M::Obj& o) {
    std::vector<uint32_t> h = history(id);
    model.initial(o);
    for (size_t i = 0; i < h.size(); ++i) {
      Fail f;
      if (!model.apply(o, h[i], &f)) return false;
    }
    count(CNT_REPLAYS); count(CNT_REPLAY_OPS, (long long)h.size());
    return model.key(o) == *keys[id];
  }

  int add_state(const std::string& k, int par, uint32_t op) {
    std::pair<typename std::unordered_map<std::string, int>::iterator, bool> r = idx.insert(std::make_pair(k, (int)keys.size()));
    if (!r.second) return -1;
    keys.push_back(&r.first->first); parent.push_back(par); pop.push_back(op);
    depth.push_back(par < 0 ? 0 : depth[par] + 1);
    return (int)keys.size() - 1;
  }

  // ---- worker side
  int out_fd;
  std::unordered_set<std::string> local_new;
  void emit(int par, uint32_t op, const std::string& k) {
    if (idx.find(k) != idx.end()) return;
    if (!local_new.insert(k).second) return;
    if (out_fd < 0) {
      std::string p = tmpdir + "/w" + std::to_string(pool().worker_id < 0 ? 999 : pool().worker_id) + ".bin";
      out_fd = open(p.c_str(), O_WRONLY | O_CREAT | O_APPEND, 0600);
      if (out_fd < 0) { perror("c16 emit"); _exit(3); }
    }
    std::string rec;
    uint32_t p32 = (uint32_t)par; uint16_t len = (uint16_t)k.size();
    rec.append((const char*)&p32, 4); rec.append((const char*)&op, 4); rec.append((const char*)&len, 2); rec += k;
    if (write(out_fd, rec.data(), rec.size()) != (ssize_t)rec.size()) { perror("c16 write"); _exit(3); }
  }

  void expand(int id, long long sub_start) {
    typename M::Obj base;
    if (!materialise(id, base)) {
      sink().line(J().str("t", "error").str("msg", "replay of state " + std::to_string(id) + " does not reproduce its layout (non-determinism?)").done());
      return;
    }
    long long sub = 0;
    if (pool().want(sub, sub_start)) {
      pool().step(sub);
      Fail f;
      long long n = model.lookups(base, &f);
      if (f.set) report(id, 0, false, f);
      count(CNT_TRANS, n < 0 ? -n : n); count(CNT_LOOKUPS, n < 0 ? -n : n);
    }
    ++sub;
    std::vector<uint32_t> ops;
    model.ops(base, id, ops);
    for (size_t i = 0; i < ops.size(); ++i, ++sub) {
      if (!pool().want(sub, sub_start)) continue;
      pool().step(sub);
      typename M::Obj w;
      Fail f;
      if (!model.clone(base, w, &f)) { report(id, ops[i], true, f); continue; }
      bool ok = model.apply(w, ops[i], &f);
      count(CNT_TRANS);
      // a failing transition whose input matches a narrow known-finding predicate yields an invalid successor that is
      // not expanded; any other failing transition also means that the closure is incomplete
      if (!ok) { if (f.trigger == "none") count(CNT_VIOL_TRANS); else count(CNT_TRIG_TRANS); report(id, ops[i], true, f); continue; }
      emit(id, ops[i], model.key(w));
    }
    count(CNT_STATES);
  }

  void collect() {
    frontier.clear();
    DIR* d = opendir(tmpdir.c_str());
    if (!d) return;
    std::vector<std::string> files;
    while (struct dirent* e = readdir(d)) { std::string n = e->d_name; if (n.size() > 4 && n.substr(n.size() - 4) == ".bin") files.push_back(tmpdir + "/" + n); }
    closedir(d);
    std::sort(files.begin(), files.end());
    for (size_t fi = 0; fi < files.size(); ++fi) {
      std::ifstream in(files[fi].c_str(), std::ios::binary);
      std::string buf((std::istreambuf_iterator<char>(in)), std::istreambuf_iterator<char>());
      size_t p = 0;
      while (p + 10 <= buf.size()) {
        uint32_t par, op; uint16_t len;
        memcpy(&par, &buf[p], 4); memcpy(&op, &buf[p + 4], 4); memcpy(&len, &buf[p + 8], 2);
        if (p + 10 + len > buf.size()) break;
        std::string k = buf.substr(p + 10, len);
        p += 10 + len;
        int id = add_state(k, (int)par, op);
        if (id >= 0) frontier.push_back(id); else count(CNT_DUP);
      }
      unlink(files[fi].c_str());
    }
  }

  void run() {
    char tmpl[] = "/tmp/c16-XXXXXX";
    if (!mkdtemp(tmpl)) { perror("mkdtemp"); exit(3); }
    tmpdir = tmpl;
    out_fd = -1;
    {
      typename M::Obj o; model.initial(o);
      add_state(model.key(o), -1, 0);
      frontier.push_back(0);
    }
    Pool::Fn fn = [&](long long item, long long sub_start) {
      alarm(600);
      expand(frontier[item], sub_start);
      alarm(0);
    };
    Pool::CrashFn cf = [&](long long item, long long sub, int sig, bool confirmed) {
      if (!confirmed) return;
      ++crashes;
      int id = frontier[item];
      Fail f;
      std::string opn = "(lookups)"; uint32_t op = 0; bool has = false;
      if (sub > 0) {
        typename M::Obj base;
        std::vector<uint32_t> ops;
        if (materialise(id, base)) model.ops(base, id, ops);
        if ((size_t)(sub - 1) < ops.size()) { op = ops[sub - 1]; has = true; opn = model.op_name(op); }
      }
      f.put(has ? model.site(op) : model.lookup_site(), std::string("crash:") + signame(sig), signame(sig), "normal return", opn);
      report(id, op, has, f);
    };
    while (!frontier.empty()) {
      if (args.expired()) { complete = false; break; }
      ++levels;
      double t0 = now_s();
      size_t nf = frontier.size();
      pool().run((long long)frontier.size(), args.jobs, fn, cf, args, 0);
      collect();
      fprintf(stderr, "[c16 %s] level %d: expanded %zu, new %zu, total %zu states, %.1fs (elapsed %.0fs)\n", tag.c_str(), levels, nf, frontier.size(), keys.size(), now_s() - t0, now_s() - args.t0);
      if (counter(CNT_SKIPPED) > 0) { complete = false; break; }
      if (counter(CNT_VIOL) >= 500) {               // systematically broken: no point in closing the state space
        fprintf(stderr, "[c16 %s] %lld violating cases so far: exploration stopped\n", tag.c_str(), counter(CNT_VIOL));
        complete = false; break;
      }
    }
    if (crashes > 0 || counter(CNT_VIOL_TRANS) > 0) complete = false;   // successors of failing transitions were not explored
    rmdir(tmpdir.c_str());
  }
};

} // namespace c16
#endif

// C17 adapters: Rational_Box and a box with integer (mpz) boundaries.
#include "harness/c17_adapt.hh"
#include "interfaces/interfaced_boxes.hh"
namespace c17 {
std::vector<Domain*> domains_box() {
  std::vector<Domain*> v;
  v.push_back(new SimpleDomain<PPL::Rational_Box>("Rational_Box", true));
  v.push_back(new SimpleDomain<PPL::Z_Box>("Z_Box", true));
  return v;
}
}

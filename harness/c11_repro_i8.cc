// Stand-alone reproducers (checked-int8 coefficient build) for the C11 part-2 known findings:
// after std::overflow_error the receiver is left invalid (OK() false, or OK() itself crashes).
// Build: bin/vcheck harness c11_repro_i8 ; run: <exe> [case]
#include "ppl-config.h"
#include "version.hh"
#include "ppl_include_files.hh"
#include <cstdio>
using namespace Parma_Polyhedra_Library;
static void report(const char* what, C_Polyhedron& p, bool run_ok) {
  std::cout << what << ": ";
  if (!run_ok) { std::cout << "(OK() not called: it crashes)\n"; return; }
  try { std::cout << "OK() = " << p.OK() << "\n"; } catch (const std::exception& e) { std::cout << "OK() threw " << e.what() << "\n"; }
}
int main(int argc, char** argv) {
  int which = argc > 1 ? atoi(argv[1]) : 0;
  Variable A(0), B(1);
  { // 1. pending generators
    C_Polyhedron p(2); p.add_constraint(A + B <= 11); p.add_generator(point(100*A + 100*B));
    try { p.add_constraint(A >= 0); std::cout << "no exception\n"; } catch (const std::overflow_error& e) { std::cout << "overflow_error (" << e.what() << ") ";
      report("1. {A+B<=11} + point(100,100), then add_constraint(A>=0)", p, true); } }
  { // 2. pending constraints
    C_Polyhedron p(2); p.add_constraint(A >= 0); p.add_generator(point()); p.add_constraint(11*A + 5*B <= 60);
    try { p.affine_image(A, 11*A + 5, 3); std::cout << "no exception\n"; } catch (const std::overflow_error& e) { std::cout << "overflow_error (" << e.what() << ") ";
      report("2. {A>=0} + point(0,0) + 11A+5B<=60 (pending), then affine_image(A, (11A+5)/3)", p, true); } }
  { // 3. in-place affine transformation
    C_Polyhedron p(2); p.add_constraint(2*A + 3*B >= 1); p.affine_image(B, 5*A - 11*B + 3, 2); (void)p.minimized_constraints();
    try { p.affine_preimage(B, 3*B - A, 5); std::cout << "no exception\n"; } catch (const std::overflow_error& e) { std::cout << "overflow_error (" << e.what() << ") ";
      report("3. minimized {2A+3B>=1; B:=(5A-11B+3)/2}, then affine_preimage(B, (3B-A)/5)", p, true); } }
  { // 4. OK() crashes
    C_Polyhedron p(2); p.add_generator(point(60*A - 100*B, 11)); p.add_constraint(7*A == 3); p.add_constraint(11*A + 5*B <= 60);
    try { p.add_generator(point()); std::cout << "no exception\n"; } catch (const std::overflow_error& e) { std::cout << "overflow_error (" << e.what() << ") ";
      report("4. universe + point(60,-100)/11 + 7A==3 + 11A+5B<=60, then add_generator(point(0,0))", p, which == 4); } }
  return 0;
}

// C19: interface between the uninstrumented explorer (c19_main.cc) and the instrumented
// instantiations of the inline Watchdog / Threshold_Watcher constructors and destructors
// (c19_api.cc, compiled by clang with -fsanitize-coverage=trace-pc-guard,trace-loads,trace-stores).
#ifndef VERIF_C19_API_HH
#define VERIF_C19_API_HH 1

namespace c19 {

// Flag hierarchy for the Handler_Flag<Flag_Base, Flag> constructors.  priority() is defined in the
// uninstrumented explorer: it is the observation hook of the flag-style constructor.
struct FlagBase {
  int idx;
  int prio;
  FlagBase(int i, int p) : idx(i), prio(p) {}
};
struct Flag : public FlagBase {
  Flag(int i, int p) : FlagBase(i, p) {}
  int priority() const;          // defined in c19_main.cc (logs the call)
};

// opaque handles
void* wd_new_fn(long csecs, void (*fn)());
void* wd_new_flag(long csecs, const FlagBase* volatile& holder, Flag& flag);
void  wd_delete(void* w);

void* tw_new_fn(unsigned long long delta, void (*fn)());
void* tw_new_flag(unsigned long long delta, const FlagBase* volatile& holder, Flag& flag);
void  tw_delete(void* w);
void  tw_maybe_abandon();

} // namespace c19

#endif

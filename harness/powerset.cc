// C09: bounded exhaustive explicit-state exploration of Pointset_Powerset<PSET> against a
// union-of-cells reference (ref::USet, Fourier-Motzkin; no PPL code in the oracle).
//
// A state is a POOL OF TWO powersets (p0, p1) so that copies share reference-counted disjuncts
// (Determinate<PSET> is copy-on-write).  A state is identified by its history (list of operations
// from an initial pair); every transition is executed on a pair rebuilt by replaying the history
// (no cloning: the sharing pattern and all lazy state are reproduced by construction).
//   Phase A: breadth-first closure of a builder alphabet (add_disjunct from a menu, copies,
//            swap, omega/pairwise reduction, upper bound = sharing) to depth D; states are
//            deduplicated on  ascii_dump(p0) + reduced flag + ascii_dump(p1) + reduced flag +
//            canonicalised sharing pattern of the Determinate::Rep pointers.
//   Phase B: every operation of the full alphabet (mutators + observers) is applied to every
//            phase-A state; the model value (USet of the disjuncts' constraint cells) is read
//            before and after and compared with the reference formula of the operation; the slot
//            that is not the receiver must keep its union (copy independence); every mutator result
//            is additionally pairwise-reduced (which omega-reduces first) and must keep its union.
// One translation unit per base domain (-DPS_DOM=1..5), one TU with main() (-DPS_DOM=0).
#include "engine/common.hh"
#include "engine/ppl_ref.hh"
#include "ref/ops.hh"
#include <unordered_map>
#include <unordered_set>
#include <memory>
#include <algorithm>

#ifndef PS_DOM
#define PS_DOM 0
#endif

int ps_run_1(int, char**); int ps_run_2(int, char**); int ps_run_3(int, char**); int ps_run_4(int, char**); int ps_run_5(int, char**);

#if PS_DOM == 0
int main(int argc, char** argv) {
  std::string dom = "C";
  for (int i = 1; i + 1 < argc; ++i) if (std::string(argv[i]) == "--dom") dom = argv[i + 1];
  if (dom == "C") return ps_run_1(argc, argv);
  if (dom == "NNC") return ps_run_2(argc, argv);
  if (dom == "BDS") return ps_run_3(argc, argv);
  if (dom == "BOX") return ps_run_4(argc, argv);
#ifdef PS_GRID
  if (dom == "GRID") return ps_run_5(argc, argv);
#endif
  fprintf(stderr, "unknown --dom %s\n", dom.c_str());
  return 2;
}
#else

namespace {

using namespace vf;
using ref::Cell; using ref::Row; using ref::Rows; using ref::Vec; using ref::Q; using ref::USet;
using PPL::Variable; using PPL::Coefficient; using PPL::Linear_Expression;

#if PS_DOM == 1
typedef PPL::C_Polyhedron PSET;
const char* DOM = "C_Polyhedron";
const bool kNNC = false, kPoly = true, kBDS = false, kBox = false;
#elif PS_DOM == 2
typedef PPL::NNC_Polyhedron PSET;
const char* DOM = "NNC_Polyhedron";
const bool kNNC = true, kPoly = true, kBDS = false, kBox = false;
#elif PS_DOM == 3
typedef PPL::BD_Shape<mpq_class> PSET;
const char* DOM = "BD_Shape<mpq_class>";
const bool kNNC = false, kPoly = false, kBDS = true, kBox = false;
#elif PS_DOM == 4
typedef PPL::Rational_Box PSET;
const char* DOM = "Rational_Box";
const bool kNNC = true, kPoly = false, kBDS = false, kBox = true;
#else
#error "PS_DOM 5 (Grid) is not implemented in this harness"
#endif
typedef PPL::Pointset_Powerset<PSET> PS;
typedef PPL::Pointset_Powerset<PPL::NNC_Polyhedron> NPS;

Args ARGS;

#include "harness/c09_model.hh"

// model-level omega-reduction: drop empty cells and cells included in another one (one copy of equal cells)
U model_omega(const U& s) {
  U o;
  for (size_t i = 0; i < s.size(); ++i) {
    if (CT.empty[s[i]]) continue;
    bool drop = false;
    for (size_t j = 0; j < s.size() && !drop; ++j) if (i != j && !CT.empty[s[j]] && csubset(s[i], s[j]) && (!csubset(s[j], s[i]) || j < i)) drop = true;
    if (!drop) o.push_back(s[i]);
  }
  return o;
}

// ------------------------------------------------------------------ menus
CN lo(int v, long num, long den = 1, bool strict = false) { LE e; e.a.assign(v + 1, 0); e.a[v] = den; e.b = -num; return CN(e, strict ? ref::GT : ref::GE); }
CN hi(int v, long num, long den = 1, bool strict = false) { LE e; e.a.assign(v + 1, 0); e.a[v] = -den; e.b = num; return CN(e, strict ? ref::GT : ref::GE); }
CN lin(std::initializer_list<long> a, long b, int k) { return CN(LE(a, b), k); }

struct DJ { std::string name; std::vector<CN> cs; bool marked_empty; DJ() : marked_empty(false) {} };
DJ dj(const std::string& n, std::initializer_list<CN> cs) { DJ d; d.name = n; d.cs = cs; return d; }

std::vector<DJ> MENU[3];      // per dimension (1, 2)
std::vector<int> MENU1[3];    // indices into MENU used for slot 1
std::vector<CN> CONS;         // constraint menu (dimension 2; filtered by fits())
struct AF { int var; LE e; long d; };
std::vector<AF> AFF;

bool fits(const LE& e, int dim) { return e.dim() <= dim; }
bool fits(const CN& c, int dim) { return fits(c.e, dim); }
// can the base domain represent constraint c exactly (add_constraint does not throw)?
bool representable(const CN& c) {
  if (c.k == ref::GT && !kNNC) return false;
  int nz = 0; long s = 0; bool unit = true;
  for (size_t i = 0; i < c.e.a.size(); ++i) if (c.e.a[i]) { ++nz; s += c.e.a[i]; }
  (void)unit;
  if (kPoly) return true;
  if (kBox) return nz <= 1;
  // BD shape: at most two variables with opposite coefficients
  if (nz <= 1) return true;
  return nz == 2 && s == 0;
}

void build_menus() {
  using ref::EQ; using ref::GE; using ref::GT;
  // ---- dimension 1
  {
    std::vector<DJ>& m = MENU[1];
    m.push_back(dj("I0=[0,1]", {lo(0, 0), hi(0, 1)}));
    if (kNNC) m.push_back(dj("I1o=(1,2]", {lo(0, 1, 1, true), hi(0, 2)}));
    m.push_back(dj("I1=[1,2]", {lo(0, 1), hi(0, 2)}));
    m.push_back(dj("I2=[0,2]", {lo(0, 0), hi(0, 2)}));
    m.push_back(dj("I3=[1/2,3/2]", {lo(0, 1, 2), hi(0, 3, 2)}));
    m.push_back(dj("E={x>=1,x<=0}", {lo(0, 1), hi(0, 0)}));
    m.push_back(dj("P={x=0}", {lin({1}, 0, EQ)}));
    if (kNNC) m.push_back(dj("I0o=(0,1)", {lo(0, 0, 1, true), hi(0, 1, 1, true)}));
    m.push_back(dj("I4=[2,3]", {lo(0, 2), hi(0, 3)}));
    m.push_back(dj("H={x>=1}", {lo(0, 1)}));
    m.push_back(dj("I0r=[0,1]+(x<=5)", {lo(0, 0), hi(0, 5), hi(0, 1)}));
    m.push_back(dj("U=universe", {}));
    { DJ d; d.name = "EM=marked-empty"; d.marked_empty = true; m.push_back(d); }
    if (kNNC) m.push_back(dj("Ho={x>1}", {lo(0, 1, 1, true)}));
  }
  // ---- dimension 2
  {
    std::vector<DJ>& m = MENU[2];
    m.push_back(dj("S0=[0,1]x[0,1]", {lo(0, 0), hi(0, 1), lo(1, 0), hi(1, 1)}));
    if (kNNC) m.push_back(dj("S1o=(1,2]x[0,1]", {lo(0, 1, 1, true), hi(0, 2), lo(1, 0), hi(1, 1)}));
    m.push_back(dj("S1=[1,2]x[0,1]", {lo(0, 1), hi(0, 2), lo(1, 0), hi(1, 1)}));
    m.push_back(dj("S2=[0,2]x[0,2]", {lo(0, 0), hi(0, 2), lo(1, 0), hi(1, 2)}));
    m.push_back(dj("S3=[1/2,3/2]^2", {lo(0, 1, 2), hi(0, 3, 2), lo(1, 1, 2), hi(1, 3, 2)}));
    m.push_back(dj("E={x>=1,x<=0}", {lo(0, 1), hi(0, 0)}));
    if (kPoly) {
      m.push_back(dj("T0={x>=0,y>=0,x+y<=1}", {lo(0, 0), lo(1, 0), lin({-1, -1}, 1, GE)}));
      m.push_back(dj("T1={x<=1,y<=1,x+y>=1}", {hi(0, 1), hi(1, 1), lin({1, 1}, -1, GE)}));
    } else if (kBDS) {
      m.push_back(dj("T0={x>=0,y<=1,x<=y}", {lo(0, 0), hi(1, 1), lin({-1, 1}, 0, GE)}));
      m.push_back(dj("T1={x<=1,y>=0,x>=y}", {hi(0, 1), lo(1, 0), lin({1, -1}, 0, GE)}));
    } else {
      m.push_back(dj("T0=[0,1]x[1,2]", {lo(0, 0), hi(0, 1), lo(1, 1), hi(1, 2)}));
      m.push_back(dj("T1=[3,4]x[0,1]", {lo(0, 3), hi(0, 4), lo(1, 0), hi(1, 1)}));
    }
    m.push_back(dj("L={y=0,0<=x<=1}", {lo(0, 0), hi(0, 1), lin({0, 1}, 0, EQ)}));
    if (kNNC) m.push_back(dj("S0o=(0,1)x(0,1)", {lo(0, 0, 1, true), hi(0, 1, 1, true), lo(1, 0, 1, true), hi(1, 1, 1, true)}));
    m.push_back(dj("H={x>=1}", {lo(0, 1)}));
    m.push_back(dj("S0r=S0+(x<=5)", {lo(0, 0), hi(0, 5), hi(0, 1), lo(1, 0), hi(1, 1)}));
    m.push_back(dj("U=universe", {}));
    { DJ d; d.name = "EM=marked-empty"; d.marked_empty = true; m.push_back(d); }
    if (kNNC) m.push_back(dj("Ho={x>1}", {lo(0, 1, 1, true)}));
  }
  CONS = {
    lin({2, 0}, -1, GE),      // x >= 1/2
    lin({-1, 0}, 1, GE),      // x <= 1
    lin({1, 0}, -1, EQ),      // x = 1
    lin({0, 1}, -1, GE),      // y >= 1
    lin({1, -1}, 0, GE),      // x >= y
    lin({-1, -1}, 2, GE),     // x + y <= 2
    lin({1, 0}, 0, GT),       // x > 0
    lin({0, 0}, -1, GE),      // false
    lin({0, 0}, 1, GE),       // true
  };
  AFF = {
    {0, LE({1, 0}, 1), 1},    // x := x + 1
    {0, LE({-1, 0}, 0), 1},   // x := -x
    {0, LE({2, 0}, -1), 1},   // x := 2x - 1
    {0, LE({0, 0}, 0), 1},    // x := 0
    {0, LE({1, 0}, 0), 2},    // x := x/2
    {0, LE({0, 1}, 0), 1},    // x := y
    {1, LE({1, 1}, 0), 1},    // y := x + y
  };
}

PSET make_disjunct(const DJ& d, int dim) {
  if (d.marked_empty) return PSET(dim, PPL::EMPTY);
  PSET p(dim, PPL::UNIVERSE);
  for (size_t i = 0; i < d.cs.size(); ++i) p.add_constraint(d.cs[i].ppl());
  return p;
}
Cell disjunct_cell(const DJ& d, int dim) {
  if (d.marked_empty) return Cell::empty(dim);
  Cell c(dim);
  for (size_t i = 0; i < d.cs.size(); ++i) c.rows.push_back(d.cs[i].row(dim));
  return c;
}

// ------------------------------------------------------------------ the pool of two powersets
struct Pool2 {
  std::unique_ptr<PS> p[2];
};

struct Snap {          // what the oracle reads from one powerset
  int dim; bool reduced; bool ok; bool dims_ok;
  U seq;               // model disjuncts in sequence order
  Snap() : dim(0), reduced(false), ok(true), dims_ok(true) {}
};

// NOTE: reading constraints() changes the lazy state of the disjuncts: call only on scratch pairs
// after the state key has been taken.
Snap snap_of(const PS& p) {
  Snap s;
  s.dim = p.space_dimension();
  s.reduced = p.reduced;
  s.ok = p.OK();
  for (PS::Sequence::const_iterator i = p.sequence.begin(); i != p.sequence.end(); ++i) {
    const PSET& q = i->prep->pset;
    if ((int)q.space_dimension() != s.dim) { s.dims_ok = false; continue; }
    s.seq.push_back(CT.id(cell_of(q.constraints(), s.dim)));
  }
  return s;
}

std::string state_key(const Pool2& P) {
  std::string k;
  std::map<const void*, int> names;
  for (int t = 0; t < 2; ++t) {
    const PS& p = *P.p[t];
    k += dump_of(p);
    k += p.reduced ? "+reduced\n" : "-reduced\n";
    k += "reps";
    for (PS::Sequence::const_iterator i = p.sequence.begin(); i != p.sequence.end(); ++i) {
      const void* r = i->prep;
      std::map<const void*, int>::iterator it = names.find(r);
      int id; if (it == names.end()) { id = (int)names.size(); names[r] = id; } else id = it->second;
      k += " " + std::to_string(id) + "/" + std::to_string((long)i->prep->references);
    }
    k += "\n---\n";
  }
  return k;
}
std::string sharing_of(const Pool2& P) {
  std::string k; std::map<const void*, int> names;
  for (int t = 0; t < 2; ++t) {
    for (PS::Sequence::const_iterator i = P.p[t]->sequence.begin(); i != P.p[t]->sequence.end(); ++i) {
      const void* r = i->prep; std::map<const void*, int>::iterator it = names.find(r);
      int id; if (it == names.end()) { id = (int)names.size(); names[r] = id; } else id = it->second;
      k += std::to_string(id) + ",";
    }
    k += "|";
  }
  return k;
}

// ------------------------------------------------------------------ operations
struct Pre { Snap s[2]; };
struct Op {
  std::string name, method;
  int t;                 // receiver slot
  bool builder, observer, reassign_other, binary;
  std::function<bool(const Pre&)> ok;
  std::function<std::string(Pool2&)> apply;
  // returns "" or "clause|observed|expected|detail"
  std::function<std::string(const Pre&, const Snap*, const std::string&)> check;
  Op() : t(0), builder(false), observer(false), reassign_other(false), binary(false) {}
};
std::vector<Op> OPS;

std::string bad(const std::string& clause, const std::string& obs = "", const std::string& exp = "", const std::string& detail = "") {
  return clause + "\x1f" + obs + "\x1f" + exp + "\x1f" + detail;
}
std::string B(bool b) { return b ? "true" : "false"; }
std::string qstr(const Q& q) { std::ostringstream s; s << q; return s.str(); }

typedef std::function<U(const Pre&)> UF;
// result union must equal f(pre)
std::function<std::string(const Pre&, const Snap*, const std::string&)> exact(int t, UF f, const std::string& clause = "union:result!=reference") {
  return [t, f, clause](const Pre& pre, const Snap* post, const std::string&) -> std::string {
    U want = f(pre);
    if (uequal(post[t].seq, want)) return "";
    return bad(clause, ustr(post[t].seq), ustr(want), uwitness(post[t].seq, want));
  };
}
// lo(pre) subseteq result subseteq hi(pre)   (hi may be empty function: no upper bound)
std::function<std::string(const Pre&, const Snap*, const std::string&)> encl(int t, UF lo_, UF hi_) {
  return [t, lo_, hi_](const Pre& pre, const Snap* post, const std::string&) -> std::string {
    U l = lo_(pre);
    if (!usubset(l, post[t].seq)) return bad("union:result-loses-points", ustr(post[t].seq), "superset of " + ustr(l), uwitness(post[t].seq, uunion(post[t].seq, l)));
    if (hi_) { U h = hi_(pre); if (!usubset(post[t].seq, h)) return bad("union:result-exceeds-documented-bound", ustr(post[t].seq), "subset of " + ustr(h), uwitness(uunion(post[t].seq, h), h)); }
    return "";
  };
}
std::function<std::string(const Pre&, const Snap*, const std::string&)> elementwise(int t, UF f) { return kPoly ? exact(t, f) : encl(t, f, UF()); }

std::string slot(int t) { return t ? "p1" : "p0"; }
bool same_dim(const Pre& p) { return p.s[0].dim == p.s[1].dim; }

PPL::Relation_Symbol relsym_ppl(int r) {
  switch (r) { case 0: return PPL::LESS_THAN; case 1: return PPL::LESS_OR_EQUAL; case 2: return PPL::EQUAL; case 3: return PPL::GREATER_OR_EQUAL; default: return PPL::GREATER_THAN; }
}
const char* relsym_name(int r) { static const char* n[] = {"<", "<=", "=", ">=", ">"}; return n[r]; }

void add(const Op& o) { OPS.push_back(o); }

bool cell_bounded(const Cell& c) {
  for (int i = 0; i < c.n; ++i) {
    Vec v(c.n, Q(0)); v[i] = 1;
    if (ref::sup(c, v, Q(0)).status == 2 || ref::inf(c, v, Q(0)).status == 2) return false;
  }
  return true;
}
int universe_id(int dim) { return CT.id(Cell::universe(dim)); }

std::string rel_flags(const PPL::Poly_Con_Relation& r) {
  std::string s;
  if (r.implies(PPL::Poly_Con_Relation::is_disjoint())) s += "D";
  if (r.implies(PPL::Poly_Con_Relation::strictly_intersects())) s += "X";
  if (r.implies(PPL::Poly_Con_Relation::is_included())) s += "I";
  if (r.implies(PPL::Poly_Con_Relation::saturates())) s += "S";
  return s.empty() ? "-" : s;
}

void build_ops(int menu_n, bool full_slot1) {
  // =========================================================== builders
  for (int t = 0; t < 2; ++t) {
    for (int dim = 1; dim <= 2; ++dim) {
      std::vector<int> idx;
      if (t == 0) for (int i = 0; i < (int)MENU[dim].size() && i < menu_n; ++i) idx.push_back(i);
      else idx = MENU1[dim];
      for (int i : idx) {
        DJ d = MENU[dim][i];
        Op o; o.t = t; o.method = "add_disjunct"; o.name = slot(t) + ".add_disjunct(" + d.name + ")"; o.builder = true;
        o.ok = [t, dim](const Pre& p) { return p.s[t].dim == dim; };
        o.apply = [t, d, dim](Pool2& P) { P.p[t]->add_disjunct(make_disjunct(d, dim)); return std::string(); };
        o.check = [t, d, dim](const Pre& pre, const Snap* post, const std::string&) -> std::string {
          U want = pre.s[t].seq; want.push_back(CT.id(disjunct_cell(d, dim)));
          if (post[t].seq.size() != want.size()) return bad("add_disjunct:size", std::to_string(post[t].seq.size()), std::to_string(want.size()));
          if (!uequal(post[t].seq, want)) return bad("union:result!=reference", ustr(post[t].seq), ustr(want), uwitness(post[t].seq, want));
          if (post[t].reduced && !model_reduced(post[t].seq)) return bad("flag:reduced-but-not-omega-reduced", ustr(post[t].seq));
          return ""; };
        add(o);
      }
    }
    int s = 1 - t;
    { Op o; o.t = t; o.method = "operator="; o.name = slot(t) + " = " + slot(s); o.builder = true; o.reassign_other = false;
      o.ok = [](const Pre&) { return true; };
      o.apply = [t, s](Pool2& P) { *P.p[t] = *P.p[s]; return std::string(); };
      o.check = [t, s](const Pre& pre, const Snap* post, const std::string&) -> std::string {
        if (post[t].seq != pre.s[s].seq || post[t].dim != pre.s[s].dim) return bad("copy:value-differs-from-source", ustr(post[t].seq), ustr(pre.s[s].seq));
        return ""; };
      add(o); }
    { Op o; o.t = t; o.method = "Pointset_Powerset(copy)"; o.name = slot(t) + " := new copy of " + slot(s); o.builder = (t == 1);
      o.ok = [](const Pre&) { return true; };
      o.apply = [t, s](Pool2& P) { PS* n = new PS(*P.p[s]); P.p[t].reset(n); return std::string(); };
      o.check = [t, s](const Pre& pre, const Snap* post, const std::string&) -> std::string {
        if (post[t].seq != pre.s[s].seq || post[t].dim != pre.s[s].dim) return bad("copy:value-differs-from-source", ustr(post[t].seq), ustr(pre.s[s].seq));
        return ""; };
      add(o); }
    { Op o; o.t = t; o.method = "omega_reduce"; o.name = slot(t) + ".omega_reduce()"; o.builder = true; o.observer = true;
      o.ok = [](const Pre&) { return true; };
      o.apply = [t](Pool2& P) { P.p[t]->omega_reduce(); return std::string(); };
      o.check = [t](const Pre& pre, const Snap* post, const std::string&) -> std::string {
        if (!model_reduced(post[t].seq)) return bad("omega_reduce:result-not-omega-reduced", ustr(post[t].seq), "no empty disjunct, no disjunct included in another");
        if (post[t].seq.size() > pre.s[t].seq.size()) return bad("omega_reduce:size-increased");
        if (!post[t].reduced) return bad("omega_reduce:flag-not-set");
        return ""; };
      add(o); }
    { Op o; o.t = t; o.method = "pairwise_reduce"; o.name = slot(t) + ".pairwise_reduce()"; o.builder = (t == 0); o.observer = true;
      o.ok = [](const Pre&) { return true; };
      o.apply = [t](Pool2& P) { P.p[t]->pairwise_reduce(); return std::string(); };
      o.check = [t](const Pre& pre, const Snap* post, const std::string&) -> std::string {
        const U& r = post[t].seq;
        if (!model_reduced(r)) return bad("pairwise_reduce:result-not-omega-reduced", ustr(r));
        if (r.size() > pre.s[t].seq.size()) return bad("pairwise_reduce:size-increased");
        if (kPoly) { RefGuard g; for (size_t i = 0; i < r.size(); ++i) for (size_t j = i + 1; j < r.size(); ++j)
          if (ref::union_is_convex(CT[r[i]], CT[r[j]], kNNC)) return bad("pairwise_reduce:mergeable-pair-left", ustr(r), "no two disjuncts whose union is their upper bound"); }
        return ""; };
      add(o); }
    { Op o; o.t = t; o.method = "upper_bound_assign"; o.name = slot(t) + ".upper_bound_assign(" + slot(s) + ")"; o.builder = true; o.binary = true;
      o.ok = same_dim;
      o.apply = [t, s](Pool2& P) { P.p[t]->upper_bound_assign(*P.p[s]); return std::string(); };
      UF f = [t, s](const Pre& pre) { return uunion(pre.s[t].seq, pre.s[s].seq); };
      std::function<std::string(const Pre&, const Snap*, const std::string&)> ex = exact(t, f);
      o.check = [t, ex](const Pre& pre, const Snap* post, const std::string& r) -> std::string {
        std::string e = ex(pre, post, r); if (!e.empty()) return e;
        if (!model_reduced(post[t].seq)) return bad("upper_bound_assign:result-not-omega-reduced", ustr(post[t].seq));
        return ""; };
      add(o); }
    { Op o; o.t = t; o.method = "is_omega_reduced"; o.name = slot(t) + ".is_omega_reduced()"; o.builder = (t == 0); o.observer = true;
      o.ok = [](const Pre&) { return true; };
      o.apply = [t](Pool2& P) { return B(P.p[t]->is_omega_reduced()); };
      o.check = [t](const Pre& pre, const Snap* post, const std::string& ret) -> std::string {
        if (ret == "true" && !model_reduced(post[t].seq)) return bad("is_omega_reduced:true-but-not-reduced", ustr(post[t].seq));
        if (ret == "false" && model_reduced(pre.s[t].seq)) return bad("is_omega_reduced:false-but-reduced", ustr(pre.s[t].seq));
        return ""; };
      add(o); }
  }
  { Op o; o.t = 0; o.method = "swap"; o.name = "swap(p0, p1)"; o.builder = true; o.reassign_other = true;
    o.ok = [](const Pre&) { return true; };
    o.apply = [](Pool2& P) { using std::swap; swap(*P.p[0], *P.p[1]); return std::string(); };
    o.check = [](const Pre& pre, const Snap* post, const std::string&) -> std::string {
      if (post[0].seq != pre.s[1].seq || post[1].seq != pre.s[0].seq || post[0].reduced != pre.s[1].reduced || post[1].reduced != pre.s[0].reduced)
        return bad("swap:values-not-exchanged", ustr(post[0].seq) + " / " + ustr(post[1].seq), ustr(pre.s[1].seq) + " / " + ustr(pre.s[0].seq));
      return ""; };
    add(o); }

  // =========================================================== mutators (phase B)
  for (int t = 0; t < 2; ++t) {
    int s = 1 - t;
    bool fullset = (t == 0) || full_slot1;
    // collapse
    { Op o; o.t = t; o.method = "collapse"; o.name = slot(t) + ".collapse()";
      o.ok = [](const Pre&) { return true; };
      o.apply = [t](Pool2& P) { P.p[t]->collapse(); return std::string(); };
      o.check = [t](const Pre& pre, const Snap* post, const std::string&) -> std::string {
        const U& x = pre.s[t].seq; const U& r = post[t].seq;
        if (x.empty()) return r.empty() ? "" : bad("collapse:nonempty-sequence-from-empty");
        if (r.size() != 1) return bad("collapse:size!=1", std::to_string(r.size()), "1");
        if (kPoly) { int h = hull_all(x, pre.s[t].dim, kNNC); U hu(1, h);
          if (!uequal(r, hu)) return bad("collapse:result!=base-level-upper-bound", ustr(r), ustr(hu), uwitness(r, hu)); }
        else { std::string e = tight_enclosure(r[0], x, pre.s[t].dim, kBDS, kBox); if (!e.empty()) return bad("collapse:" + e, ustr(r), "smallest element containing " + ustr(x)); }
        return ""; };
      add(o); }
    // collapse(max_disjuncts) (protected)
    if (fullset) { Op o; o.t = t; o.method = "collapse(unsigned)"; o.name = slot(t) + ".collapse(2)";
      o.ok = [](const Pre&) { return true; };
      o.apply = [t](Pool2& P) { P.p[t]->collapse(2u); return std::string(); };
      o.check = [t](const Pre& pre, const Snap* post, const std::string&) -> std::string {
        const U& x = pre.s[t].seq; const U& r = post[t].seq;
        if (r.size() > 2) return bad("collapse(2):size>2", std::to_string(r.size()));
        if (!usubset(x, r)) return bad("union:result-loses-points", ustr(r), "superset of " + ustr(x), uwitness(r, uunion(r, x)));
        if (kPoly) { int h = hull_all(x, pre.s[t].dim, kNNC); U hu(1, h); if (!usubset(r, hu)) return bad("union:result-exceeds-documented-bound", ustr(r), "subset of " + ustr(hu)); }
        if (!model_reduced(r)) return bad("collapse(2):result-not-omega-reduced", ustr(r));
        return ""; };
      add(o); }
    // meet / intersection / difference / time elapse / concatenate / simplify
    for (int which = 0; which < 2; ++which) {
      if (!fullset && which == 0) continue;
      Op o; o.t = t; o.binary = true; o.method = which ? "intersection_assign" : "meet_assign"; o.name = slot(t) + "." + o.method + "(" + slot(s) + ")";
      o.ok = same_dim;
      o.apply = [t, s, which](Pool2& P) { if (which) P.p[t]->intersection_assign(*P.p[s]); else P.p[t]->meet_assign(*P.p[s]); return std::string(); };
      o.check = exact(t, [t, s](const Pre& pre) { return umeet(pre.s[t].seq, pre.s[s].seq); });
      add(o);
    }
    { Op o; o.t = t; o.binary = true; o.method = "difference_assign"; o.name = slot(t) + ".difference_assign(" + slot(s) + ")";
      o.ok = same_dim;
      o.apply = [t, s](Pool2& P) { P.p[t]->difference_assign(*P.p[s]); return std::string(); };
      UF d = [t, s](const Pre& pre) { return udiff(pre.s[t].seq, pre.s[s].seq); };
      if (PS_DOM == 2) o.check = exact(t, d, "difference:result!=set-difference");
      else if (PS_DOM == 1) o.check = exact(t, [d](const Pre& pre) { return umap(d(pre), [](const Cell& c) { return ref::closure(c); }); }, "difference:result!=closure-of-set-difference");
      else o.check = encl(t, d, [t](const Pre& pre) { return pre.s[t].seq; });
      add(o); }
    if (fullset) { Op o; o.t = t; o.binary = true; o.method = "time_elapse_assign"; o.name = slot(t) + ".time_elapse_assign(" + slot(s) + ")";
      o.ok = same_dim;
      o.apply = [t, s](Pool2& P) { P.p[t]->time_elapse_assign(*P.p[s]); return std::string(); };
      o.check = elementwise(t, [t, s](const Pre& pre) { U r; RefGuard g;
        for (int a : pre.s[t].seq) for (int b : pre.s[s].seq) { if (CT.empty[a] || CT.empty[b]) continue; r.push_back(memo2("te", a, b, [](const Cell& x, const Cell& y) { return ref::time_elapse(x, y, kNNC); })); }
        return r; });
      add(o); }
    if (fullset) { Op o; o.t = t; o.binary = true; o.method = "concatenate_assign"; o.name = slot(t) + ".concatenate_assign(" + slot(s) + ")";
      o.ok = [](const Pre& p) { return p.s[0].dim + p.s[1].dim <= 3; };
      o.apply = [t, s](Pool2& P) { P.p[t]->concatenate_assign(*P.p[s]); return std::string(); };
      o.check = exact(t, [t, s](const Pre& pre) { U r;
        for (int a : pre.s[t].seq) for (int b : pre.s[s].seq) { if (CT.empty[a] || CT.empty[b]) continue; r.push_back(CT.id(ref::concatenate(CT[a], CT[b]))); }
        return r; });
      add(o); }
    if (fullset) { Op o; o.t = t; o.binary = true; o.method = "simplify_using_context_assign"; o.name = slot(t) + ".simplify_using_context_assign(" + slot(s) + ")";
      o.ok = same_dim;
      o.apply = [t, s](Pool2& P) { return B(P.p[t]->simplify_using_context_assign(*P.p[s])); };
      o.check = [t, s](const Pre& pre, const Snap* post, const std::string& ret) -> std::string {
        // doc/definitions.dox "Meet-Preserving Simplification" (powersets): the result S is, w.r.t. the omega-reduced
        // receiver S1 = {d_i} and context S2 = {c_j},
        //  (a) powerset meet-preserving: meet(S, S2) == meet(S1, S2)   (also when that meet is empty);
        //  (b) a powerset simplification: #S <= #S1;
        //  (c) a disjunct meet-preserving simplification: every s_k has a d_i such that, for each c_j,
        //      s_k is a meet-preserving enlargement of d_i using context c_j  (s_k >= d_i, s_k /\ c_j == d_i /\ c_j).
        // The Boolean result is false iff the meet is empty.
        U m = umeet(pre.s[t].seq, pre.s[s].seq);
        bool me = uempty(m);
        if (ret == "false" && !me) return bad("simplify:false-but-meet-nonempty", ret, "true");
        if (ret == "true" && me) return bad("simplify:true-but-meet-empty", ret, "false");
        U m2 = umeet(post[t].seq, pre.s[s].seq);
        if (!uequal(m, m2)) return bad("simplify:meet-not-preserved", ustr(post[t].seq) + " (meet with context " + ustr(m2) + ")", "meet with context " + ustr(m), uwitness(m2, m));
        U s1 = model_omega(pre.s[t].seq), s2 = model_omega(pre.s[s].seq);
        if (post[t].seq.size() > s1.size()) return bad("simplify:size-increased", std::to_string(post[t].seq.size()), "<= " + std::to_string(s1.size()) + " (disjuncts of the omega-reduced receiver)");
        if (!me) for (int sk : post[t].seq) {
          bool found = false;
          for (int di : s1) {
            if (!csubset(di, sk)) continue;
            bool all = true;
            for (int cj : s2) { U a(1, sk), b(1, di), c(1, cj); if (!uequal(umeet(a, c), umeet(b, c))) { all = false; break; } }
            if (all) { found = true; break; }
          }
          if (!found) return bad("simplify:disjunct-not-a-meet-preserving-enlargement-of-a-receiver-disjunct", ref::cell_str(CT[sk]) + " in " + ustr(post[t].seq), "each result disjunct enlarges some disjunct of " + ustr(s1) + " and preserves its meet with every disjunct of " + ustr(s2));
        }
        return ""; };
      add(o); }
    // constraints
    for (size_t ci = 0; ci < CONS.size(); ++ci) {
      CN c = CONS[ci];
      if (!fullset && ci != 1) continue;
      UF meetc = [t, c](const Pre& pre) { return umap(pre.s[t].seq, [c](const Cell& x) { if (x.bot) return x; Cell r = x; r.rows.push_back(c.row(x.n)); return r; }); };
      if (representable(c)) {
        Op o; o.t = t; o.method = "add_constraint"; o.name = slot(t) + ".add_constraint(" + c.str() + ")";
        o.ok = [t, c](const Pre& p) { return fits(c, p.s[t].dim); };
        o.apply = [t, c](Pool2& P) { P.p[t]->add_constraint(c.ppl()); return std::string(); };
        o.check = exact(t, meetc);
        add(o);
      }
      if (fullset) {
        Op o; o.t = t; o.method = "refine_with_constraint"; o.name = slot(t) + ".refine_with_constraint(" + c.str() + ")";
        o.ok = [t, c](const Pre& p) { return fits(c, p.s[t].dim); };
        o.apply = [t, c](Pool2& P) { P.p[t]->refine_with_constraint(c.ppl()); return std::string(); };
        if (representable(c)) o.check = exact(t, meetc);
        else if (kPoly) { CN rc = c; rc.k = ref::GE; o.check = encl(t, meetc, [t, rc](const Pre& pre) { return umap(pre.s[t].seq, [rc](const Cell& x) { if (x.bot) return x; Cell r = x; r.rows.push_back(rc.row(x.n)); return r; }); }); }
        else o.check = encl(t, meetc, [t](const Pre& pre) { return pre.s[t].seq; });
        add(o);
      }
    }
    if (fullset) {
      int pairs[][2] = {{0, 1}, {2, 3}, {1, 4}};
      for (auto& pr : pairs) {
        CN a = CONS[pr[0]], b = CONS[pr[1]];
        if (!representable(a) || !representable(b)) continue;
        for (int refine = 0; refine < 2; ++refine) {
          Op o; o.t = t; o.method = refine ? "refine_with_constraints" : "add_constraints"; o.name = slot(t) + "." + o.method + "({" + a.str() + ", " + b.str() + "})";
          o.ok = [t, a, b](const Pre& p) { return fits(a, p.s[t].dim) && fits(b, p.s[t].dim); };
          o.apply = [t, a, b, refine](Pool2& P) { PPL::Constraint_System cs; cs.insert(a.ppl()); cs.insert(b.ppl());
            if (refine) P.p[t]->refine_with_constraints(cs); else P.p[t]->add_constraints(cs); return std::string(); };
          o.check = exact(t, [t, a, b](const Pre& pre) { return umap(pre.s[t].seq, [a, b](const Cell& x) { if (x.bot) return x; Cell r = x; r.rows.push_back(a.row(x.n)); r.rows.push_back(b.row(x.n)); return r; }); });
          add(o);
        }
      }
    }
    // affine images / preimages
    for (size_t ai = 0; ai < AFF.size(); ++ai) {
      AF af = AFF[ai];
      if (!fullset && ai != 0) continue;
      for (int pre_ = 0; pre_ < 2; ++pre_) {
        if (!fullset && pre_) continue;
        Op o; o.t = t; o.method = pre_ ? "affine_preimage" : "affine_image";
        o.name = slot(t) + "." + o.method + "(" + char('A' + af.var) + ", " + af.e.str() + ", " + std::to_string(af.d) + ")";
        o.ok = [t, af](const Pre& p) { return af.var < p.s[t].dim && fits(af.e, p.s[t].dim); };
        o.apply = [t, af, pre_](Pool2& P) { if (pre_) P.p[t]->affine_preimage(Variable(af.var), af.e.ppl(), Coefficient(af.d)); else P.p[t]->affine_image(Variable(af.var), af.e.ppl(), Coefficient(af.d)); return std::string(); };
        o.check = elementwise(t, [t, af, pre_](const Pre& pre) { RefGuard g; return umap(pre.s[t].seq, [af, pre_](const Cell& c) {
          Cell rel = ref::rel_affine(c.n, af.var, af.e.vec(c.n), Q(af.e.b), Q(af.d)); return pre_ ? ref::preimage(c, rel) : ref::image(c, rel); }); });
        add(o);
      }
    }
    if (fullset) {
      struct GA { int var; int rel; LE e; long d; };
      std::vector<GA> gas = { {0, 1, LE({1, 0}, 1), 1}, {0, 3, LE({0, 0}, 2), 1}, {0, 0, LE({1, 0}, 0), 1}, {1, 3, LE({1, 0}, 0), 2} };
      for (const GA& ga0 : gas) {
        GA ga = ga0;
        if ((ga.rel == 0 || ga.rel == 4) && !kNNC) continue;
        Op o; o.t = t; o.method = "generalized_affine_image";
        o.name = slot(t) + ".generalized_affine_image(" + char('A' + ga.var) + ", " + relsym_name(ga.rel) + ", " + ga.e.str() + ", " + std::to_string(ga.d) + ")";
        o.ok = [t, ga](const Pre& p) { return ga.var < p.s[t].dim && fits(ga.e, p.s[t].dim); };
        o.apply = [t, ga](Pool2& P) { P.p[t]->generalized_affine_image(Variable(ga.var), relsym_ppl(ga.rel), ga.e.ppl(), Coefficient(ga.d)); return std::string(); };
        o.check = elementwise(t, [t, ga](const Pre& pre) { RefGuard g; return umap(pre.s[t].seq, [ga](const Cell& c) {
          return ref::image(c, ref::rel_generalized_var(c.n, ga.var, ga.rel, ga.e.vec(c.n), Q(ga.e.b), Q(ga.d))); }); });
        add(o);
      }
      { Op o; o.t = t; o.method = "bounded_affine_image"; o.name = slot(t) + ".bounded_affine_image(A, 1*A-1, 1*A+1, 1)";
        LE lb({1, 0}, -1), ub({1, 0}, 1);
        o.ok = [t](const Pre& p) { return p.s[t].dim >= 1; };
        o.apply = [t, lb, ub](Pool2& P) { P.p[t]->bounded_affine_image(Variable(0), lb.ppl(), ub.ppl(), Coefficient(1)); return std::string(); };
        o.check = elementwise(t, [t, lb, ub](const Pre& pre) { RefGuard g; return umap(pre.s[t].seq, [lb, ub](const Cell& c) {
          return ref::image(c, ref::rel_bounded(c.n, 0, lb.vec(c.n), Q(lb.b), ub.vec(c.n), Q(ub.b), Q(1))); }); });
        add(o); }
      for (int v = 0; v < 2; ++v) { Op o; o.t = t; o.method = "unconstrain"; o.name = slot(t) + ".unconstrain(" + char('A' + v) + ")";
        o.ok = [t, v](const Pre& p) { return v < p.s[t].dim; };
        o.apply = [t, v](Pool2& P) { P.p[t]->unconstrain(Variable(v)); return std::string(); };
        o.check = exact(t, [t, v](const Pre& pre) { RefGuard g; return umap(pre.s[t].seq, [v](const Cell& c) { return ref::unconstrain(c, std::vector<int>(1, v)); }); });
        add(o); }
      { Op o; o.t = t; o.method = "topological_closure_assign"; o.name = slot(t) + ".topological_closure_assign()";
        o.ok = [](const Pre&) { return true; };
        o.apply = [t](Pool2& P) { P.p[t]->topological_closure_assign(); return std::string(); };
        o.check = exact(t, [t](const Pre& pre) { return umap(pre.s[t].seq, [](const Cell& c) { return ref::closure(c); }); });
        add(o); }
      // dimensions
      for (int proj = 0; proj < 2; ++proj) { Op o; o.t = t; o.method = proj ? "add_space_dimensions_and_project" : "add_space_dimensions_and_embed"; o.name = slot(t) + "." + o.method + "(1)";
        o.ok = [](const Pre&) { return true; };
        o.apply = [t, proj](Pool2& P) { if (proj) P.p[t]->add_space_dimensions_and_project(1); else P.p[t]->add_space_dimensions_and_embed(1); return std::string(); };
        o.check = exact(t, [t, proj](const Pre& pre) { return umap(pre.s[t].seq, [proj](const Cell& c) { return proj ? ref::add_dims_project(c, 1) : ref::add_dims_embed(c, 1); }); });
        add(o); }
      for (int v = 0; v < 2; ++v) { Op o; o.t = t; o.method = "remove_space_dimensions"; o.name = slot(t) + ".remove_space_dimensions({" + char('A' + v) + "})";
        o.ok = [t, v](const Pre& p) { return v < p.s[t].dim; };
        o.apply = [t, v](Pool2& P) { PPL::Variables_Set vs; vs.insert(Variable(v)); P.p[t]->remove_space_dimensions(vs); return std::string(); };
        o.check = exact(t, [t, v](const Pre& pre) { RefGuard g; return umap(pre.s[t].seq, [v](const Cell& c) { return ref::remove_dims(c, std::vector<int>(1, v)); }); });
        add(o); }
      for (int nd = 0; nd < 2; ++nd) { Op o; o.t = t; o.method = "remove_higher_space_dimensions"; o.name = slot(t) + ".remove_higher_space_dimensions(" + std::to_string(nd) + ")";
        o.ok = [t, nd](const Pre& p) { return nd < p.s[t].dim; };
        o.apply = [t, nd](Pool2& P) { P.p[t]->remove_higher_space_dimensions(nd); return std::string(); };
        o.check = exact(t, [t, nd](const Pre& pre) { RefGuard g; return umap(pre.s[t].seq, [nd](const Cell& c) { std::vector<int> vs; for (int i = nd; i < c.n; ++i) vs.push_back(i); return ref::remove_dims(c, vs); }); });
        add(o); }
      { Op o; o.t = t; o.method = "expand_space_dimension"; o.name = slot(t) + ".expand_space_dimension(A, 1)";
        o.ok = [t](const Pre& p) { return p.s[t].dim >= 1; };
        o.apply = [t](Pool2& P) { P.p[t]->expand_space_dimension(Variable(0), 1); return std::string(); };
        o.check = exact(t, [t](const Pre& pre) { return umap(pre.s[t].seq, [](const Cell& c) { return ref::expand_dim(c, 0, 1); }); });
        add(o); }
      { Op o; o.t = t; o.method = "fold_space_dimensions"; o.name = slot(t) + ".fold_space_dimensions({B}, A)";
        o.ok = [t](const Pre& p) { return p.s[t].dim == 2; };
        o.apply = [t](Pool2& P) { PPL::Variables_Set vs; vs.insert(Variable(1)); P.p[t]->fold_space_dimensions(vs, Variable(0)); return std::string(); };
        o.check = elementwise(t, [t](const Pre& pre) { RefGuard g; return umap(pre.s[t].seq, [](const Cell& c) { return ref::fold_dims(c, std::vector<int>(1, 1), 0, kNNC); }); });
        add(o); }
      { int maps[][2] = {{1, 0}, {-1, 0}};
        for (auto& mp : maps) { int a = mp[0], b = mp[1];
          Op o; o.t = t; o.method = "map_space_dimensions"; o.name = slot(t) + ".map_space_dimensions(A->" + std::to_string(a) + ", B->" + std::to_string(b) + ")";
          o.ok = [t](const Pre& p) { return p.s[t].dim == 2; };
          o.apply = [t, a, b](Pool2& P) { PPL::Partial_Function f; if (a >= 0) f.insert(0, a); if (b >= 0) f.insert(1, b); P.p[t]->map_space_dimensions(f); return std::string(); };
          o.check = exact(t, [t, a, b](const Pre& pre) { RefGuard g; std::vector<int> pf; pf.push_back(a); pf.push_back(b); return umap(pre.s[t].seq, [pf](const Cell& c) { return ref::map_dims(c, pf); }); });
          add(o); } }
    }
    // dropping disjuncts through iterators
    for (int k = 0; k < 2; ++k) {
      if (!fullset && k) continue;
      Op o; o.t = t; o.method = "drop_disjunct"; o.name = slot(t) + ".drop_disjunct(" + (k ? "last" : "first") + ")";
      o.ok = [t](const Pre& p) { return !p.s[t].seq.empty(); };
      o.apply = [t, k](Pool2& P) { PS::iterator i = P.p[t]->begin(); if (k) { i = P.p[t]->end(); --i; } P.p[t]->drop_disjunct(i); return std::string(); };
      o.check = [t, k](const Pre& pre, const Snap* post, const std::string&) -> std::string {
        U want = pre.s[t].seq; if (k) want.pop_back(); else want.erase(want.begin());
        if (post[t].seq != want) return bad("drop_disjunct:wrong-sequence", ustr(post[t].seq), ustr(want));
        if (post[t].reduced && !model_reduced(post[t].seq)) return bad("flag:reduced-but-not-omega-reduced", ustr(post[t].seq));
        return ""; };
      add(o);
    }
    if (fullset) for (int k = 0; k < 2; ++k) {
      Op o; o.t = t; o.method = "drop_disjuncts"; o.name = slot(t) + ".drop_disjuncts(" + (k ? "second" : "begin") + ", end)";
      o.ok = [t, k](const Pre& p) { return (int)p.s[t].seq.size() >= k; };
      o.apply = [t, k](Pool2& P) { PS::iterator i = P.p[t]->begin(); if (k) ++i; P.p[t]->drop_disjuncts(i, P.p[t]->end()); return std::string(); };
      o.check = [t, k](const Pre& pre, const Snap* post, const std::string&) -> std::string {
        U want(pre.s[t].seq.begin(), pre.s[t].seq.begin() + k);
        if (post[t].seq != want) return bad("drop_disjuncts:wrong-sequence", ustr(post[t].seq), ustr(want));
        return ""; };
      add(o);
    }
    // construction from a base-level element
    if (fullset) for (int dim = 1; dim <= 2; ++dim) for (size_t i = 0; i < MENU[dim].size(); ++i) {
      DJ d = MENU[dim][i];
      if (i >= 2 && d.name[0] != 'E') continue;
      Op o; o.t = t; o.method = "Pointset_Powerset(PSET)"; o.name = slot(t) + " := Pointset_Powerset(" + d.name + ")";
      o.ok = [t, dim](const Pre& p) { return p.s[t].dim == dim; };
      o.apply = [t, d, dim](Pool2& P) { P.p[t].reset(new PS(make_disjunct(d, dim))); return std::string(); };
      o.check = [t, d, dim](const Pre&, const Snap* post, const std::string&) -> std::string {
        U want(1, CT.id(disjunct_cell(d, dim)));
        if (!uequal(post[t].seq, want)) return bad("union:result!=reference", ustr(post[t].seq), ustr(want));
        if (post[t].reduced && !model_reduced(post[t].seq)) return bad("flag:reduced-but-not-omega-reduced", ustr(post[t].seq));
        return ""; };
      add(o);
    }
  }
}

// =========================================================== observers
void build_observers(bool full_slot1) {
  for (int t = 0; t < 2; ++t) {
    if (t == 1 && !full_slot1) continue;
    int s = 1 - t;
    auto unary = [t](const std::string& m, std::function<std::string(PS&)> run, std::function<std::string(const Pre&, const Snap*, const std::string&)> chk,
                     std::function<bool(const Pre&)> ok = std::function<bool(const Pre&)>()) {
      Op o; o.t = t; o.method = m.substr(0, m.find('(')); o.name = slot(t) + "." + m; o.observer = true;
      o.ok = ok ? ok : [](const Pre&) { return true; };
      o.apply = [t, run](Pool2& P) { return run(*P.p[t]); };
      o.check = chk; add(o); };
    auto binary = [t, s](const std::string& m, std::function<std::string(PS&, PS&)> run, std::function<std::string(const Pre&, const Snap*, const std::string&)> chk) {
      Op o; o.t = t; o.method = m; o.name = slot(t) + "." + m + "(" + slot(s) + ")"; o.observer = true; o.binary = true;
      o.ok = same_dim;
      o.apply = [t, s, run](Pool2& P) { return run(*P.p[t], *P.p[s]); };
      o.check = chk; add(o); };
    typedef const Pre& CP; typedef const Snap* SP; typedef const std::string& CS;

    unary("size()", [](PS& p) { return std::to_string(p.size()); }, [t](CP pre, SP, CS ret) -> std::string {
      return ret == std::to_string(pre.s[t].seq.size()) ? "" : bad("size:!=number-of-disjuncts", ret, std::to_string(pre.s[t].seq.size())); });
    unary("is_empty()", [](PS& p) { return B(p.is_empty()); }, [t](CP pre, SP, CS ret) -> std::string {
      std::string w = B(uempty(pre.s[t].seq)); return ret == w ? "" : bad("observer:answer!=model", ret, w); });
    unary("is_universe()", [](PS& p) { return B(p.is_universe()); }, [t](CP pre, SP, CS ret) -> std::string {
      U un(1, universe_id(pre.s[t].dim));
      bool has = false; for (int c : pre.s[t].seq) if (c == un[0]) has = true;
      if (ret == "true" && !usubset(un, pre.s[t].seq)) return bad("observer:definite-answer-unsound", ret, "false (the union is not the universe)");
      if (ret == "false" && has) return bad("observer:answer!=model", ret, "true (a disjunct is the universe)");
      return ""; });
    unary("is_bounded()", [](PS& p) { return B(p.is_bounded()); }, [t](CP pre, SP, CS ret) -> std::string {
      bool b = true; { RefGuard g; for (int c : pre.s[t].seq) if (!CT.empty[c] && !cell_bounded(CT[c])) b = false; }
      return ret == B(b) ? "" : bad("observer:answer!=model", ret, B(b)); });
    if (kNNC) unary("is_topologically_closed()", [](PS& p) { return B(p.is_topologically_closed()); }, [t](CP pre, SP, CS ret) -> std::string {
      U cl = umap(pre.s[t].seq, [](const Cell& c) { return ref::closure(c); });
      bool closed = usubset(cl, pre.s[t].seq);
      if (ret == "true" && !closed) return bad("observer:definite-answer-unsound", ret, "false (the union is not closed)");
      return ""; });
    unary("affine_dimension()", [](PS& p) { return std::to_string(p.affine_dimension()); }, [t](CP pre, SP, CS ret) -> std::string {
      RefGuard g;
      Cell acc = Cell::empty(pre.s[t].dim);
      for (int c : pre.s[t].seq) if (!CT.empty[c]) acc = ref::hull_closed(acc, ref::closure(CT[c]));
      int ad = ref::affine_dimension(acc); if (ad < 0) ad = 0;
      return ret == std::to_string(ad) ? "" : bad("observer:answer!=model", ret, std::to_string(ad)); });
    // maximize / minimize / bounds
    std::vector<LE> exprs = { LE({1, 0}, 0), LE({1, 1}, 0), LE({-1, 2}, 1) };
    for (const LE& e0 : exprs) for (int maxi = 0; maxi < 2; ++maxi) {
      LE e = e0;
      auto okf = [t, e](const Pre& p) { return fits(e, p.s[t].dim); };
      unary(std::string(maxi ? "maximize(" : "minimize(") + e.str() + ")", [e, maxi](PS& p) {
          Coefficient n, d; bool incl; bool b = maxi ? p.maximize(e.ppl(), n, d, incl) : p.minimize(e.ppl(), n, d, incl);
          if (!b) return std::string("false");
          Q v(to_q(n).get_num(), to_q(d).get_num()); v.canonicalize();
          return "true," + qstr(v) + "," + (incl ? "incl" : "notincl"); },
        [t, e, maxi](CP pre, SP, CS ret) -> std::string {
          ref::Sup sp; { RefGuard g; sp = usup(pre.s[t].seq, e.vec(pre.s[t].dim), Q(e.b), maxi); }
          std::string w = sp.status != 1 ? "false" : "true," + qstr(sp.value) + "," + (sp.attained ? "incl" : "notincl");
          return ret == w ? "" : bad("observer:answer!=model", ret, w); }, okf);
      unary(std::string(maxi ? "bounds_from_above(" : "bounds_from_below(") + e.str() + ")", [e, maxi](PS& p) { return B(maxi ? p.bounds_from_above(e.ppl()) : p.bounds_from_below(e.ppl())); },
        [t, e, maxi](CP pre, SP, CS ret) -> std::string {
          ref::Sup sp; { RefGuard g; sp = usup(pre.s[t].seq, e.vec(pre.s[t].dim), Q(e.b), maxi); }
          std::string w = B(sp.status != 2);
          return ret == w ? "" : bad("observer:answer!=model", ret, w); }, okf);
    }
    // relation_with(constraint)
    for (const CN& c0 : CONS) {
      CN c = c0;
      if (c.k == ref::GT && !kNNC && !kPoly) continue;
      unary("relation_with(" + c.str() + ")", [c](PS& p) { return rel_flags(p.relation_with(c.ppl())); },
        [t, c](CP pre, SP, CS ret) -> std::string {
          const U& x = pre.s[t].seq; int dim = pre.s[t].dim;
          Cell cc(dim); cc.rows.push_back(c.row(dim)); U cu(1, CT.id(cc));
          Cell ce(dim); Row er = c.row(dim); er.k = ref::EQ; ce.rows.push_back(er); U eu(1, CT.id(ce));
          bool incl = usubset(x, cu), disj = uempty(umeet(x, cu)), sat = usubset(x, eu);
          bool I = ret.find('I') != std::string::npos, D = ret.find('D') != std::string::npos, X = ret.find('X') != std::string::npos, S = ret.find('S') != std::string::npos;
          std::string w = std::string(disj ? "D" : "") + (!disj && !incl ? "X" : "") + (incl ? "I" : "") + (sat ? "S" : "");
          if (I && !incl) return bad("relation_with:is_included-unsound", ret, w);
          if (D && !disj) return bad("relation_with:is_disjoint-unsound", ret, w);
          if (S && !sat) return bad("relation_with:saturates-unsound", ret, w);
          if (X && (disj || incl)) return bad("relation_with:strictly_intersects-unsound", ret, w);
          if (kPoly && ((incl && !I) || (disj && !D))) return bad("relation_with:incomplete", ret, w);
          return ""; },
        [t, c](const Pre& p) { return fits(c, p.s[t].dim); });
    }
    // check_containment(menu element, powerset)
    for (int dim = 1; dim <= 2; ++dim) for (size_t i = 0; i < MENU[dim].size(); ++i) {
      DJ d = MENU[dim][i];
      Op o; o.t = t; o.method = "check_containment"; o.name = "check_containment(" + d.name + ", " + slot(t) + ")"; o.observer = true;
      o.ok = [t, dim](const Pre& p) { return p.s[t].dim == dim; };
      o.apply = [t, d, dim](Pool2& P) { return B(PPL::check_containment(make_disjunct(d, dim), *P.p[t])); };
      o.check = [t, d, dim](CP pre, SP, CS ret) -> std::string {
        U du(1, CT.id(disjunct_cell(d, dim)));
        std::string w = B(usubset(du, pre.s[t].seq));
        return ret == w ? "" : bad("observer:answer!=model", ret, w); };
      add(o);
    }
    // binary observers
    binary("geometrically_covers", [](PS& x, PS& y) { return B(x.geometrically_covers(y)); }, [t, s](CP pre, SP, CS ret) -> std::string {
      std::string w = B(usubset(pre.s[s].seq, pre.s[t].seq)); return ret == w ? "" : bad("observer:answer!=model", ret, w); });
    binary("geometrically_equals", [](PS& x, PS& y) { return B(x.geometrically_equals(y)); }, [t, s](CP pre, SP, CS ret) -> std::string {
      std::string w = B(uequal(pre.s[s].seq, pre.s[t].seq)); return ret == w ? "" : bad("observer:answer!=model", ret, w); });
    binary("is_disjoint_from", [](PS& x, PS& y) { return B(x.is_disjoint_from(y)); }, [t, s](CP pre, SP, CS ret) -> std::string {
      std::string w = B(uempty(umeet(pre.s[s].seq, pre.s[t].seq))); return ret == w ? "" : bad("observer:answer!=model", ret, w); });
    binary("definitely_entails", [](PS& x, PS& y) { return B(x.definitely_entails(y)); }, [t, s](CP pre, SP, CS ret) -> std::string {
      bool all = true;
      for (int a : pre.s[t].seq) { bool f = false; for (int b : pre.s[s].seq) if (csubset(a, b)) { f = true; break; } if (!f) { all = false; break; } }
      if (ret == "true" && !usubset(pre.s[t].seq, pre.s[s].seq)) return bad("entailment-does-not-imply-geometric-containment", ret, "false");
      return ret == B(all) ? "" : bad("observer:answer!=documented-disjunctwise-test", ret, B(all)); });
    binary("contains", [](PS& x, PS& y) { return B(x.contains(y)); }, [t, s](CP pre, SP, CS ret) -> std::string {
      bool all = true;
      for (int b : pre.s[s].seq) { bool f = false; for (int a : pre.s[t].seq) if (csubset(b, a)) { f = true; break; } if (!f) { all = false; break; } }
      if (ret == "true" && !usubset(pre.s[s].seq, pre.s[t].seq)) return bad("contains-does-not-imply-geometric-containment", ret, "false");
      return ret == B(all) ? "" : bad("observer:answer!=documented-disjunctwise-test", ret, B(all)); });
    binary("strictly_contains", [](PS& x, PS& y) { return B(x.strictly_contains(y)); }, [t, s](CP pre, SP post, CS ret) -> std::string {
      bool all = true;   // on the (omega-reduced) receiver and argument as they are after the call (both are omega-reduced by it)
      for (int b : post[s].seq) { bool f = false; for (int a : post[t].seq) if (csubset(b, a) && !csubset(a, b)) { f = true; break; } if (!f) { all = false; break; } }
      if (ret == "true" && !usubset(pre.s[s].seq, pre.s[t].seq)) return bad("contains-does-not-imply-geometric-containment", ret, "false");
      return ret == B(all) ? "" : bad("observer:answer!=documented-disjunctwise-test", ret, B(all)); });
    binary("operator==", [](PS& x, PS& y) { return B(x == y); }, [t, s](CP pre, SP, CS ret) -> std::string {
      if (ret == "true" && !uequal(pre.s[s].seq, pre.s[t].seq)) return bad("observer:definite-answer-unsound", ret, "false");
      return ""; });
    // linear_partition of the first disjuncts
    { Op o; o.t = t; o.method = "linear_partition"; o.name = "linear_partition(" + slot(t) + "[first], " + slot(s) + "[last])"; o.observer = true; o.binary = true;
      o.ok = [t, s](const Pre& p) { return same_dim(p) && !p.s[t].seq.empty() && !p.s[s].seq.empty(); };
      o.apply = [t, s](Pool2& P) {
        const PSET& p = P.p[t]->sequence.front().prep->pset; const PSET& q = P.p[s]->sequence.back().prep->pset;
        std::pair<PSET, NPS> r = PPL::linear_partition(p, q);
        int dim = p.space_dimension();
        // encode the result as cell ids:  first ; pieces
        std::string out = std::to_string(CT.id(cell_of(r.first.constraints(), dim))) + ";";
        for (NPS::const_iterator i = r.second.begin(); i != r.second.end(); ++i) out += std::to_string(CT.id(cell_of(i->pointset().constraints(), dim))) + ",";
        return out; };
      o.check = [t, s](CP pre, SP, CS ret) -> std::string {
        int p = pre.s[t].seq.front(), q = pre.s[s].seq.back();
        size_t sc = ret.find(';'); int first = atoi(ret.substr(0, sc).c_str());
        U pieces; { std::string rest = ret.substr(sc + 1); size_t pos = 0; while (pos < rest.size()) { size_t c = rest.find(',', pos); pieces.push_back(atoi(rest.substr(pos, c - pos).c_str())); pos = c + 1; } }
        U pu(1, p), qu(1, q), fu(1, first);
        U m = umeet(pu, qu);
        std::string shown = ref::cell_str(CT[first]) + " ; " + ustr(pieces);
        if (!uequal(fu, m)) return bad("linear_partition:first!=intersection", shown, ustr(m));
        for (size_t i = 0; i < pieces.size(); ++i) {
          U a(1, pieces[i]);
          if (!uempty(umeet(a, pu))) return bad("linear_partition:piece-meets-p", shown);
          for (size_t j = i + 1; j < pieces.size(); ++j) { U b(1, pieces[j]); if (!uempty(umeet(a, b))) return bad("linear_partition:pieces-overlap", shown); }
        }
        if (!uequal(uunion(fu, pieces), qu)) return bad("linear_partition:union!=q", shown, ustr(qu), uwitness(uunion(fu, pieces), qu));
        return ""; };
      add(o); }
  }
}

// ------------------------------------------------------------------ states, replay
struct State { int parent; int op; int depth; int init; };
std::vector<State> ST;
struct Init { int dim; bool universe0; std::string name; };
std::vector<Init> INITS;

void make_init(int i, Pool2& P) {
  const Init& in = INITS[i];
  P.p[0].reset(new PS(in.dim, in.universe0 ? PPL::UNIVERSE : PPL::EMPTY));
  P.p[1].reset(new PS(in.dim, PPL::EMPTY));
}
std::vector<int> ops_of(int s) { std::vector<int> h; while (ST[s].parent >= 0) { h.push_back(ST[s].op); s = ST[s].parent; } std::reverse(h.begin(), h.end()); return h; }
int init_of(int s) { return ST[s].init; }
void replay(int s, Pool2& P) {
  make_init(init_of(s), P);
  std::vector<int> h = ops_of(s);
  for (size_t i = 0; i < h.size(); ++i) OPS[h[i]].apply(P);
}
std::string hist_json(int s) {
  std::vector<int> h = ops_of(s);
  std::string a = "[";
  for (size_t i = 0; i < h.size(); ++i) { if (i) a += ","; a += jstr(OPS[h[i]].name); }
  return a + "]";
}
std::string input_json(int s, const std::string& op, const Pre* pre) {
  J j; j.str("domain", DOM).str("init", INITS[init_of(s)].name).raw("history", hist_json(s)).str("op", op);
  if (pre) j.str("p0", ustr(pre->s[0].seq) + (pre->s[0].reduced ? " +reduced" : " -reduced")).str("p1", ustr(pre->s[1].seq) + (pre->s[1].reduced ? " +reduced" : " -reduced"));
  return j.done();
}
std::string site_of(const Op& o) { return std::string("Pointset_Powerset<") + DOM + ">::" + o.method; }

struct H2 { uint64_t a, b; bool operator==(const H2& o) const { return a == o.a && b == o.b; } };
struct H2h { size_t operator()(const H2& h) const { return (size_t)(h.a ^ (h.b * 0x9e3779b97f4a7c15ULL)); } };
H2 hash2(const std::string& s) {
  uint64_t a = 1469598103934665603ULL, b = 0x2545F4914F6CDD1DULL;
  for (size_t i = 0; i < s.size(); ++i) { a ^= (unsigned char)s[i]; a *= 1099511628211ULL; b = (b ^ (unsigned char)s[i]) * 0x100000001b3ULL + (b >> 29); }
  H2 h; h.a = a; h.b = b ^ s.size(); return h;
}
std::unordered_set<H2, H2h> SEEN;
long long TRANS_A = 0;
std::set<std::string> SHARINGS;

void phase_a(int depth_max, const std::vector<int>& dims) {
  for (int d : dims) for (int u = 0; u < 2; ++u) {
    Init in; in.dim = d; in.universe0 = u; in.name = std::string("dim ") + std::to_string(d) + ": p0 = " + (u ? "UNIVERSE" : "EMPTY") + ", p1 = EMPTY";
    INITS.push_back(in);
    Pool2 P; make_init((int)INITS.size() - 1, P);
    State s; s.parent = -1; s.op = -1; s.depth = 0; s.init = (int)INITS.size() - 1;
    if (SEEN.insert(hash2(state_key(P))).second) ST.push_back(s);
  }
  size_t begin = 0;
  for (int d = 1; d <= depth_max; ++d) {
    size_t end = ST.size();
    for (size_t s = begin; s < end; ++s) {
      int dim = INITS[ST[s].init].dim;
      Pre dummy; dummy.s[0].dim = dummy.s[1].dim = dim;
      for (size_t oi = 0; oi < OPS.size(); ++oi) {
        const Op& op = OPS[oi];
        if (!op.builder || !op.ok(dummy)) continue;
        Pool2 P; replay((int)s, P);
        try { op.apply(P); } catch (const std::exception& ex) {
          if (violcap().admit("exc|" + op.method)) report_violation(site_of(op), "unexpected-exception", "none", input_json((int)s, op.name, 0), ex.what(), "no exception");
          continue;
        }
        ++TRANS_A;
        if (SEEN.insert(hash2(state_key(P))).second) {
          State n; n.parent = (int)s; n.op = (int)oi; n.depth = d; n.init = ST[s].init; ST.push_back(n);
          SHARINGS.insert(sharing_of(P));
        }
      }
      if (ARGS.left() < ARGS.deadline * 0.6) { fprintf(stderr, "[powerset] phase A cut by deadline at depth %d\n", d); return; }
    }
    begin = end;
  }
}

// ------------------------------------------------------------------ known-finding trigger (attribution only)
// The powerset simplification calls PSET::simplify_using_context_assign on (disjunct, context) pairs.
// C02 known finding: the base-level operator is not meet-preserving when the meet is lower-dimensional
// than the receiver.  The trigger holds iff one of the base-level calls made by the documented
// algorithm violates its own contract on a pair satisfying that predicate.
std::string simplify_trigger(int state, int t) {
  // re-run the documented algorithm on copies of the actual disjuncts of the replayed state and
  // look for a base-level call that violates the base-level contract (false iff the meet is empty;
  // otherwise the result is a meet-preserving enlargement; for an empty meet the result is disjoint
  // from the context) under the predicate of a reproduced base-level defect
  Pool2 P; replay(state, P);
  PS& x = *P.p[t]; PS& y = *P.p[1 - t];
  int dim = x.space_dimension();
  x.omega_reduce(); y.omega_reduce();
  bool single = y.size() == 1;
  for (PS::Sequence::const_iterator xi = x.sequence.begin(); xi != x.sequence.end(); ++xi) {
    PSET enlarged(dim, PPL::UNIVERSE);
    for (PS::Sequence::const_iterator yi = y.sequence.begin(); yi != y.sequence.end(); ++yi) {
      PSET ctx(yi->pointset()); if (!single) ctx.intersection_assign(enlarged);
      PSET e(xi->pointset());
      Cell cx, cctx;
      { PSET c1(xi->pointset()), c2(ctx); cx = cell_of(c1.constraints(), dim); cctx = cell_of(c2.constraints(), dim); }
      bool r = e.simplify_using_context_assign(ctx);
      RefGuard g;
      Cell m0 = ref::meet(cx, cctx);
      bool m0e = ref::is_empty(m0);
      Cell ce = cell_of(e.constraints(), dim);
      Cell m1 = ref::meet(ce, cctx);
      bool violated = (r == m0e) || (!m0e && (!ref::equal(m0, m1) || !ref::subset(cx, ce))) || (m0e && !ref::is_empty(m1));
      if (violated) {
        if (kPoly && !m0e) { int ad = ref::affine_dimension(m0), adp = ref::affine_dimension(cx);
          if (ad >= 0 && ad < dim && ad < adp) return "meet_lower_dimensional_than_receiver"; }
        if (kBDS && !r && !m0e && ref::subset(cctx, cx)) return "base_level_receiver_contains_context";
        if (kBox && m0e) return "base_level_call_on_disjoint_pair";
        if (kBox) { bool strict = false; for (const Row& rr : cx.rows) if (rr.k == ref::GT) strict = true; for (const Row& rr : cctx.rows) if (rr.k == ref::GT) strict = true;
          if (strict) return "open_bound_in_receiver_or_context"; }
      }
      if (!single) enlarged.intersection_assign(e);
    }
  }
  return "none";
}

// Narrow predicates over the input under which a reproduced, documented defect is expected
// (known_findings.d/C09.json); evaluated only after a clause has failed, never by the oracle.
bool has_empty_disjunct(const U& u) { for (int c : u) if (CT.empty[c]) return true; return false; }
bool has_strict_row(const U& u) { for (int c : u) for (const Row& r : CT[c].rows) if (r.k == ref::GT) return true; return false; }
std::string trigger_for(int state, const Op& op, const std::string& clause, const Pre& pre) {
  int t = op.t, s = 1 - t;
  if (clause == "relation_with:strictly_intersects-unsound" && has_empty_disjunct(pre.s[t].seq)) return "receiver_has_empty_disjunct";
  if (op.method == "simplify_using_context_assign" && clause.compare(0, 9, "simplify:") == 0) return simplify_trigger(state, t);
  if (clause.find("invariant:OK()-false") == 0 && pre.s[t].reduced && (op.method == "fold_space_dimensions" || op.method == "topological_closure_assign")) {
    RefGuard g;
    U want = op.method == "fold_space_dimensions" ? umap(pre.s[t].seq, [](const Cell& c) { return ref::fold_dims(c, std::vector<int>(1, 1), 0, kNNC); })
                                                  : umap(pre.s[t].seq, [](const Cell& c) { return ref::closure(c); });
    if (!model_reduced(want)) return "receiver_flagged_reduced_and_images_of_disjuncts_comparable";
  }
  if (kBox && (op.method == "remove_higher_space_dimensions" || op.method == "map_space_dimensions") && clause == "union:result!=reference" && has_empty_disjunct(pre.s[t].seq))
    return "receiver_has_empty_disjunct";
  return "none";
}

// ------------------------------------------------------------------ phase B
struct Outcome { std::string site, clause, trigger, observed, expected, detail; };

// executes op `oi` from state s on a fresh replay; returns the list of failed clauses
std::vector<Outcome> run_once(int s, int oi, const Pre& pre, bool& applied) {
  std::vector<Outcome> out;
  const Op& op = OPS[oi];
  applied = false;
  Pool2 P; replay(s, P);
  std::string ret;
  try { ret = op.apply(P); }
  catch (const std::exception& ex) { Outcome o; o.site = site_of(op); o.clause = "unexpected-exception"; o.trigger = "none"; o.observed = ex.what(); o.expected = "no exception"; out.push_back(o); return out; }
  applied = true;
  Snap post[2]; post[0] = snap_of(*P.p[0]); post[1] = snap_of(*P.p[1]);
  auto fail = [&](const std::string& clause, const std::string& obs, const std::string& exp, const std::string& det, const std::string& trig = "none", const std::string& site = "") {
    Outcome o; o.site = site.empty() ? site_of(op) : site; o.clause = clause; o.trigger = trig; o.observed = obs; o.expected = exp; o.detail = det; out.push_back(o); };
  for (int t = 0; t < 2; ++t) {
    if (!post[t].ok) { std::string cl = std::string("invariant:OK()-false-on-") + (t == op.t ? "receiver" : "other");
      fail(cl, "OK() false", "OK() true", ustr(post[t].seq) + (post[t].reduced ? " +reduced" : " -reduced"), trigger_for(s, op, cl, pre)); }
    if (!post[t].dims_ok) fail("invariant:disjunct-space-dimension", "mismatch", "all disjuncts have the dimension of the powerset", "");
  }
  if (!out.empty()) return out;
  count(CNT_CHECKS);
  // the slot that is not the receiver keeps its union (copy independence / const arguments)
  int other = 1 - op.t;
  if (!op.reassign_other) {
    if (post[other].dim != pre.s[other].dim || !uequal(post[other].seq, pre.s[other].seq))
      fail(std::string("copy-independence:") + slot(other) + "-changed", ustr(post[other].seq), ustr(pre.s[other].seq), uwitness(post[other].seq, pre.s[other].seq));
  }
  if (op.observer) {
    if (post[op.t].dim != pre.s[op.t].dim || !uequal(post[op.t].seq, pre.s[op.t].seq))
      fail("union-changed-by-value-preserving-operation", ustr(post[op.t].seq), ustr(pre.s[op.t].seq), uwitness(post[op.t].seq, pre.s[op.t].seq));
  }
  std::string r = op.check(pre, post, ret);
  if (!r.empty()) {
    std::vector<std::string> f; size_t pos = 0;
    for (int k = 0; k < 3; ++k) { size_t b = r.find('\x1f', pos); f.push_back(r.substr(pos, b - pos)); pos = b + 1; }
    f.push_back(r.substr(pos));
    fail(f[0], f[1], f[2], f[3], trigger_for(s, op, f[0], pre));
  }
  // every mutator result is then pairwise-reduced (omega-reduces first): the union must not change
  if (!op.observer && out.empty() && post[op.t].seq.size() >= 2) {
    try {
      P.p[op.t]->pairwise_reduce();
      Snap red = snap_of(*P.p[op.t]);
      count(CNT_CHECKS);
      std::string site = std::string("Pointset_Powerset<") + DOM + ">::pairwise_reduce";
      if (!red.ok) fail("invariant:OK()-false-after-reduction", "OK() false", "OK() true", ustr(red.seq), "none", site);
      else if (!uequal(red.seq, post[op.t].seq)) fail("reduction-after-operation:union-changed", ustr(red.seq), ustr(post[op.t].seq), uwitness(red.seq, post[op.t].seq), "none", site);
      else if (!model_reduced(red.seq)) fail("reduction-after-operation:result-not-omega-reduced", ustr(red.seq), "", "", "none", site);
    } catch (const std::exception& ex) { fail("unexpected-exception-in-reduction-after-operation", ex.what(), "no exception", ""); }
  }
  return out;
}

void run_state(int s, long long sub_start) {
  Pre pre;
  bool have_pre = false;
  for (size_t oi = 0; oi < OPS.size(); ++oi) {
    long long my = (long long)oi;
    if (!pool().want(my, sub_start)) continue;
    if (!have_pre) {
      pool().step(my);
      Pool2 P; replay(s, P);
      pre.s[0] = snap_of(*P.p[0]); pre.s[1] = snap_of(*P.p[1]);
      have_pre = true;
      if (!pre.s[0].ok || !pre.s[1].ok) {
        if (violcap().admit("stateOK")) report_violation(std::string("Pointset_Powerset<") + DOM + ">::(state)", "invariant:OK()-false", "none", input_json(s, "(none)", &pre), "OK() false", "OK() true");
      }
    }
    const Op& op = OPS[oi];
    if (!op.ok(pre)) continue;
    pool().step(my);
    bool applied = false;
    double tq = now_s();
    std::vector<Outcome> o1 = run_once(s, (int)oi, pre, applied);
    count(CNT_TRANS);
    if (now_s() - tq > 0.5) fprintf(stderr, "SLOW %.1fs %s\n", now_s() - tq, input_json(s, op.name, &pre).c_str());
    if (o1.empty()) continue;
    // determinism: the same history must fail identically twice
    bool applied2 = false;
    std::vector<Outcome> o2 = run_once(s, (int)oi, pre, applied2);
    bool same = o1.size() == o2.size();
    for (size_t i = 0; same && i < o1.size(); ++i) same = o1[i].clause == o2[i].clause && o1[i].observed == o2[i].observed;
    if (!same) { sink().line(J().str("t", "error").str("msg", "non-deterministic outcome for " + input_json(s, op.name, &pre)).done()); continue; }
    for (size_t i = 0; i < o1.size(); ++i) {
      const Outcome& o = o1[i];
      if (violcap().admit(o.site + "|" + o.clause + "|" + o.trigger))
        report_violation(o.site, o.clause, o.trigger, input_json(s, op.name, &pre), o.observed, o.expected, o.detail);
    }
  }
}

int run_main(int argc, char** argv) {
  ARGS = parse_args(argc, argv);
  sink().open(ARGS.out);
  double t0 = now_s();
  int depth = atoi(ARGS.opt("--depth", "3").c_str());
  int menu_n = atoi(ARGS.opt("--menu", "10").c_str());
  std::string dims_s = ARGS.opt("--dims", "1,2");
  bool full1 = ARGS.has("--full-slot1");
  std::vector<int> dims; for (size_t i = 0; i < dims_s.size(); ++i) if (dims_s[i] == '1' || dims_s[i] == '2') dims.push_back(dims_s[i] - '0');
  build_menus();
  // slot-1 menu: overlapping square / interval, low-dimensional face, adjacent piece, unbounded piece
  for (int dim = 1; dim <= 2; ++dim) for (size_t i = 0; i < MENU[dim].size(); ++i) {
    const std::string& n = MENU[dim][i].name;
    if (n.compare(0, 3, "S3=") == 0 || n.compare(0, 2, "L=") == 0 || n.compare(0, 3, "S0=") == 0 || n.compare(0, 3, "T0=") == 0
        || n.compare(0, 3, "I3=") == 0 || n.compare(0, 2, "P=") == 0 || n.compare(0, 3, "I0=") == 0 || n.compare(0, 3, "I4=") == 0) MENU1[dim].push_back((int)i);
  }
  build_ops(menu_n, full1);
  size_t n_mut = OPS.size();
  build_observers(full1);

  if (!ARGS.replay.empty() || ARGS.has("--history")) {
    // re-execute one history given as  --init K --history "op;op;..." --op "name"  (names as printed in reports)
    std::string hs = ARGS.opt("--history", ""), opn = ARGS.opt("--op", "");
    if (!ARGS.replay.empty()) {
      std::ifstream f(ARGS.replay.c_str()); std::stringstream ss; ss << f.rdbuf(); std::string txt = ss.str();
      auto field = [&](const std::string& k) { size_t p = txt.find("\"" + k + "\""); if (p == std::string::npos) return std::string(); p = txt.find(':', p); size_t a = txt.find('"', p); size_t b = a + 1; while (b < txt.size() && txt[b] != '"') ++b; return txt.substr(a + 1, b - a - 1); };
      opn = field("op");
      size_t p = txt.find("\"history\""); size_t a = txt.find('[', p), b = txt.find(']', a);
      std::string arr = txt.substr(a + 1, b - a - 1); hs.clear();
      size_t pos = 0; while ((pos = arr.find('"', pos)) != std::string::npos) { size_t e = arr.find('"', pos + 1); if (!hs.empty()) hs += ";"; hs += arr.substr(pos + 1, e - pos - 1); pos = e + 1; }
      std::string in = field("init"); INITS.clear();
      Init i0; i0.dim = in.find("dim 2") != std::string::npos ? 2 : 1; i0.universe0 = in.find("p0 = UNIVERSE") != std::string::npos; i0.name = in; INITS.push_back(i0);
    } else { Init i0; i0.dim = atoi(ARGS.opt("--dim", "2").c_str()); i0.universe0 = ARGS.has("--universe0"); i0.name = "cmdline"; INITS.push_back(i0); }
    State root; root.parent = -1; root.op = -1; root.depth = 0; root.init = 0; ST.push_back(root);
    size_t pos = 0; int cur = 0;
    while (pos < hs.size()) { size_t e = hs.find(';', pos); if (e == std::string::npos) e = hs.size(); std::string nm = hs.substr(pos, e - pos); pos = e + 1;
      Pre dm; dm.s[0].dim = dm.s[1].dim = INITS[0].dim;
      int oi = -1; for (size_t i = 0; i < OPS.size(); ++i) if (OPS[i].name == nm && OPS[i].ok(dm)) oi = (int)i;
      if (oi < 0) { fprintf(stderr, "unknown operation '%s'\n", nm.c_str()); return 2; }
      State n; n.parent = cur; n.op = oi; n.depth = ST[cur].depth + 1; n.init = 0; ST.push_back(n); cur = (int)ST.size() - 1; }
    Pool2 P; replay(cur, P); Pre pre; pre.s[0] = snap_of(*P.p[0]); pre.s[1] = snap_of(*P.p[1]);
    printf("state: p0 = %s\n       p1 = %s\n", ustr(pre.s[0].seq).c_str(), ustr(pre.s[1].seq).c_str());
    int oi = -1; for (size_t i = 0; i < OPS.size(); ++i) if (OPS[i].name == opn && OPS[i].ok(pre)) oi = (int)i;
    if (oi < 0) { fprintf(stderr, "unknown or inapplicable operation '%s'\n", opn.c_str()); return 2; }
    bool applied; std::vector<Outcome> o = run_once(cur, oi, pre, applied);
    for (size_t i = 0; i < o.size(); ++i) printf("VIOLATED %s %s [%s]\n  observed: %s\n  expected: %s\n  %s\n", o[i].site.c_str(), o[i].clause.c_str(), o[i].trigger.c_str(), o[i].observed.c_str(), o[i].expected.c_str(), o[i].detail.c_str());
    if (o.empty()) printf("no violation\n");
    return 0;
  }

  phase_a(depth, dims);
  double ta = now_s() - t0;
  size_t nb = 0; for (size_t i = 0; i < OPS.size(); ++i) if (OPS[i].builder) ++nb;
  fprintf(stderr, "[powerset %s] phase A: depth=%d states=%zu transitions=%lld builders=%zu ops=%zu (mutators %zu) sharing patterns=%zu in %.1fs\n",
          DOM, depth, ST.size(), TRANS_A, nb, OPS.size(), n_mut, SHARINGS.size(), ta);
  // deepest states first is not needed; interleave by index for balance
  Pool::Fn fn = [&](long long item, long long sub_start) { run_state((int)item, sub_start); count(CNT_STATES); };
  Pool::CrashFn cf = [&](long long item, long long sub, int sig, bool confirmed) {
    if (!confirmed) return;
    if (sub < 0 || sub >= (long long)OPS.size()) { sink().line(J().str("t", "error").str("msg", "crash at unknown sub-step").done()); return; }
    const Op& op = OPS[sub];
    report_violation(site_of(op), std::string("crash:") + signame(sig), "none", input_json((int)item, op.name, 0), signame(sig), "normal return");
  };
  limit_memory(6ULL << 30);
  pool().run((long long)ST.size(), ARGS.jobs, fn, cf, ARGS, 60);
  bool complete = counter(CNT_SKIPPED) == 0 && counter(CNT_REFCRASH) == 0;
  std::vector<std::string> samples;
  for (size_t i = 0; i < 3 && !ST.empty(); ++i) { size_t k = ST.size() - 1 - i * (ST.size() / 3); samples.push_back(J().str("domain", DOM).raw("history", hist_json((int)k)).done()); }
  std::vector<std::string> sh; for (auto& x : SHARINGS) { if (sh.size() < 40) sh.push_back(jstr(x)); }
  J extra; extra.str("domain", DOM).num("phaseA_states", ST.size()).num("phaseA_transitions", TRANS_A).num("builder_ops", nb).num("all_ops", OPS.size())
    .num("phaseB_transitions", counter(CNT_TRANS)).num("oracle_comparisons", counter(CNT_CHECKS)).num("sharing_patterns", SHARINGS.size())
    .num("items_skipped_by_deadline", counter(CNT_SKIPPED)).num("cases_skipped_oracle_resource_limit", counter(CNT_REFCRASH)).arr("sharing_patterns_seen", sh);
  J st; st.str("t", "stats").num("states", ST.size()).num("transitions", TRANS_A + counter(CNT_TRANS))
    .num("traces_validated_against_impl", counter(CNT_TRANS)).boolean("exhaustive", complete)
    .str("bound", std::string("Pointset_Powerset<") + DOM + ">, pool of two, dims " + dims_s + ": builder histories of depth <= " + std::to_string(depth) +
         " (menu of " + std::to_string(menu_n) + " disjuncts for p0), then every operation of the alphabet (" + std::to_string(OPS.size()) + ") + pairwise_reduce on each result")
    .arr("samples", samples).raw("extra", extra.done()).dbl("wall_s", now_s() - t0);
  sink().line(st.done());
  return 0;
}

} // namespace
#define PS_CAT2(a, b) a##b
#define PS_CAT(a, b) PS_CAT2(a, b)
int PS_CAT(ps_run_, PS_DOM)(int argc, char** argv) { return run_main(argc, argv); }
#endif

"""C20: rules for the fixed (non generated) entry points of ppl_c_implementation_common.cc, and the
per-domain rules that need custom roles (powerset iterators, linear_partition)."""
from capi_rules_base import R, VOID, BOOL, INT, LOAD

ROW = "Constraint|Generator|Congruence|Grid_Generator"
SYS = "Constraint_System|Generator_System|Congruence_System|Grid_Generator_System"
PLAIN = "Linear_Expression|" + ROW + "|" + SYS + "|MIP_Problem|PIP_Problem"

def sysit(x):
    return "%s::const_iterator" % x

PRINT_TWIN = "using namespace IO_Operators; std::ostringstream s; s << $0; R.s1 = s.str();"
PRINT_POST = "if (R.tcode == 0 && R.rc >= 0) R.expect(R.cout_text == R.s1, \"capi:output-differs\", brief(R.cout_text), brief(R.s1));"

FIXED_RULES = [
  # ---- coefficients
  R("ppl_new_Coefficient", r"ppl_new_Coefficient", VOID, "#0.tnew(new Coefficient(0));"),
  R("ppl_new_Coefficient_from_mpz_t", r"ppl_new_Coefficient_from_mpz_t", VOID, "#0.tnew(new Coefficient($1));"),
  R("ppl_new_Coefficient_from_Coefficient", r"ppl_new_Coefficient_from_Coefficient", VOID, "#0.tnew(new Coefficient($1));"),
  R("ppl_Coefficient_to_mpz_t", r"ppl_Coefficient_to_mpz_t", VOID, "$1 = mpz_class($0);", {1: "MpzOut"}),
  R("ppl_assign_Coefficient_from_mpz_t", r"ppl_assign_Coefficient_from_mpz_t", VOID, "$0 = $1;", {0: "Obj<Coefficient>:MUT:2"}),
  R("ppl_assign_Coefficient_from_Coefficient", r"ppl_assign_Coefficient_from_Coefficient", VOID, "$0 = $1;", {0: "Obj<Coefficient>:MUT:2"}),
  R("ppl_Coefficient_OK", r"ppl_Coefficient_OK", BOOL, "(void) $0; return true;"),
  R("ppl_Coefficient_is_bounded", r"ppl_Coefficient_is_bounded", BOOL, "return std::numeric_limits<Coefficient>::is_bounded;"),
  R("ppl_Coefficient_@MINMAX@", r"ppl_Coefficient_(?P<M>min|max)", BOOL,
    "if (std::numeric_limits<Coefficient>::is_bounded) { std::ostringstream s; s << std::numeric_limits<Coefficient>::%(M)s(); $0 = mpz_class(s.str()); return true; } return false;",
    {0: "MpzOut"}),
  # ---- delete / copy / assign of the plain classes
  R("ppl_delete_@SYNTACTIC@", r"ppl_delete_(?P<C>Coefficient|" + PLAIN + ")", VOID, "#0.tdel();", {0: "Obj<%(C)s>:DEL"}, post="if (R.rc == 0) { #0.cgone(); if (G.mode == MODE_MAIN) R.expect(R.live_after < R.live_before, \"life:not-released\", \"no ::operator new block was released by the delete function\", \"the object is released\"); }"),
  R("ppl_new_@SYNTACTIC@_from_@SYNTACTIC@", r"ppl_new_(?P<C>" + PLAIN + r")_from_(?P=C)", VOID, "#0.tnew(new %(C)s($1));"),
  R("ppl_assign_@SYNTACTIC@_from_@SYNTACTIC@", r"ppl_assign_(?P<C>" + PLAIN + r")_from_(?P=C)", VOID, "$0 = $1;"),
  R("ppl_@SYNTACTIC@_OK", r"ppl_(?P<C>" + PLAIN + r")_OK", BOOL, "return $0.OK();"),
  R("ppl_@SYNTACTIC@_space_dimension", r"ppl_(?P<C>" + PLAIN + r")_space_dimension", VOID, "$1 = $0.space_dimension();"),
  R("ppl_@SYNTACTIC@_ascii_dump", r"ppl_(?P<C>" + PLAIN + r")_ascii_dump", VOID, "std::ostringstream s; $0.ascii_dump(s); $1 = s.str();"),
  R("ppl_@SYNTACTIC@_ascii_load", r"ppl_(?P<C>" + PLAIN + r")_ascii_load", LOAD, "return $0.ascii_load($1);", {1: "FileR<%(C)s>"}),
  R("ppl_io_print_@SYNTACTIC@", r"ppl_io_print_(?P<C>Coefficient|" + PLAIN + ")", VOID, PRINT_TWIN, stdout=True, post=PRINT_POST),
  R("ppl_io_fprint_@SYNTACTIC@", r"ppl_io_fprint_(?P<C>Coefficient|" + PLAIN + ")", VOID, "using namespace IO_Operators; std::ostringstream s; s << $1; $0 = s.str();"),
  R("ppl_io_asprint_@SYNTACTIC@", r"ppl_io_asprint_(?P<C>Coefficient|" + PLAIN + ")", VOID, "using namespace IO_Operators; std::ostringstream s; s << $1; $0 = s.str();"),
  # ---- linear expressions
  R("ppl_new_Linear_Expression", r"ppl_new_Linear_Expression", VOID, "#0.tnew(new Linear_Expression());"),
  R("ppl_new_Linear_Expression_with_dimension", r"ppl_new_Linear_Expression_with_dimension", VOID,
    "Linear_Expression* e = new Linear_Expression(); #0.tnew(e); if ($1 > 0) *e += 0 * Variable($1 - 1);"),
  R("ppl_new_Linear_Expression_from_@ROW@", r"ppl_new_Linear_Expression_from_(?P<C>Constraint|Generator|Congruence)", VOID, "#0.tnew(new Linear_Expression($1.expression()));"),
  R("ppl_Linear_Expression_add_to_coefficient", r"ppl_Linear_Expression_add_to_coefficient", VOID, "$0 += $2 * Variable($1);"),
  R("ppl_Linear_Expression_add_to_inhomogeneous", r"ppl_Linear_Expression_add_to_inhomogeneous", VOID, "$0 += $1;"),
  R("ppl_add_Linear_Expression_to_Linear_Expression", r"ppl_add_Linear_Expression_to_Linear_Expression", VOID, "$0 += $1;"),
  R("ppl_subtract_Linear_Expression_from_Linear_Expression", r"ppl_subtract_Linear_Expression_from_Linear_Expression", VOID, "$0 -= $1;"),
  R("ppl_multiply_Linear_Expression_by_Coefficient", r"ppl_multiply_Linear_Expression_by_Coefficient", VOID, "$0 *= $1;"),
  R("ppl_@ROW@_coefficient", r"ppl_(?P<C>Linear_Expression|" + ROW + ")_coefficient", VOID, "$2 = $0.coefficient(Variable($1));"),
  R("ppl_@ROW@_inhomogeneous_term", r"ppl_(?P<C>Linear_Expression|Constraint|Congruence)_inhomogeneous_term", VOID, "$1 = $0.inhomogeneous_term();"),
  R("ppl_Linear_Expression_@PRED@", r"ppl_Linear_Expression_(?P<M>is_zero|all_homogeneous_terms_are_zero)", BOOL, "return $0.%(M)s();"),
  # ---- constraints
  R("ppl_new_Constraint", r"ppl_new_Constraint", VOID,
    "Constraint* c = 0; switch ((int)$2) {"
    " case PPL_CONSTRAINT_TYPE_EQUAL: c = new Constraint($1 == 0); break; case PPL_CONSTRAINT_TYPE_GREATER_OR_EQUAL: c = new Constraint($1 >= 0); break;"
    " case PPL_CONSTRAINT_TYPE_GREATER_THAN: c = new Constraint($1 > 0); break; case PPL_CONSTRAINT_TYPE_LESS_OR_EQUAL: c = new Constraint($1 <= 0); break;"
    " case PPL_CONSTRAINT_TYPE_LESS_THAN: c = new Constraint($1 < 0); break; default: throw std::invalid_argument(\"invalid constraint type\"); } #0.tnew(c);",
    {2: "Scalar:PPL_CONSTRAINT_TYPE_GREATER_OR_EQUAL,PPL_CONSTRAINT_TYPE_EQUAL,PPL_CONSTRAINT_TYPE_GREATER_THAN,PPL_CONSTRAINT_TYPE_LESS_OR_EQUAL,PPL_CONSTRAINT_TYPE_LESS_THAN,17"}),
  R("ppl_new_Constraint_zero_dim_@X@", r"ppl_new_Constraint_(?P<M>zero_dim_false|zero_dim_positivity)", VOID, "#0.tnew(new Constraint(Constraint::%(M)s()));"),
  R("ppl_Constraint_type", r"ppl_Constraint_type", INT,
    "return $0.is_equality() ? (long)PPL_CONSTRAINT_TYPE_EQUAL : $0.is_strict_inequality() ? (long)PPL_CONSTRAINT_TYPE_GREATER_THAN : (long)PPL_CONSTRAINT_TYPE_GREATER_OR_EQUAL;"),
  # ---- generators
  R("ppl_new_Generator", r"ppl_new_Generator", VOID,
    "Generator* g = 0; switch ((int)$2) { case PPL_GENERATOR_TYPE_POINT: g = new Generator(Generator::point($1, $3)); break;"
    " case PPL_GENERATOR_TYPE_CLOSURE_POINT: g = new Generator(Generator::closure_point($1, $3)); break; case PPL_GENERATOR_TYPE_RAY: g = new Generator(Generator::ray($1)); break;"
    " case PPL_GENERATOR_TYPE_LINE: g = new Generator(Generator::line($1)); break; default: throw std::invalid_argument(\"invalid generator type\"); } #0.tnew(g);",
    {2: "Scalar:PPL_GENERATOR_TYPE_POINT,PPL_GENERATOR_TYPE_RAY,PPL_GENERATOR_TYPE_LINE,PPL_GENERATOR_TYPE_CLOSURE_POINT,17"}),
  R("ppl_new_Generator_zero_dim_@X@", r"ppl_new_Generator_(?P<M>zero_dim_point|zero_dim_closure_point)", VOID, "#0.tnew(new Generator(Generator::%(M)s()));"),
  R("ppl_Generator_type", r"ppl_Generator_type", INT,
    "return $0.is_line() ? (long)PPL_GENERATOR_TYPE_LINE : $0.is_ray() ? (long)PPL_GENERATOR_TYPE_RAY : $0.is_point() ? (long)PPL_GENERATOR_TYPE_POINT : (long)PPL_GENERATOR_TYPE_CLOSURE_POINT;"),
  R("ppl_@GEN@_divisor", r"ppl_(?P<C>Generator|Grid_Generator)_divisor", VOID, "$1 = $0.divisor();"),
  # ---- congruences
  R("ppl_new_Congruence", r"ppl_new_Congruence", VOID, "#0.tnew(new Congruence(($1 %%= 0) / $2));"),
  R("ppl_new_Congruence_zero_dim_@X@", r"ppl_new_Congruence_(?P<M>zero_dim_false|zero_dim_integrality)", VOID, "#0.tnew(new Congruence(Congruence::%(M)s()));"),
  R("ppl_Congruence_modulus", r"ppl_Congruence_modulus", VOID, "$1 = $0.modulus();"),
  # ---- grid generators
  R("ppl_new_Grid_Generator", r"ppl_new_Grid_Generator", VOID,
    "Grid_Generator* g = 0; switch ((int)$2) { case PPL_GRID_GENERATOR_TYPE_POINT: g = new Grid_Generator(Grid_Generator::grid_point($1, $3)); break;"
    " case PPL_GRID_GENERATOR_TYPE_PARAMETER: g = new Grid_Generator(Grid_Generator::parameter($1, $3)); break;"
    " case PPL_GRID_GENERATOR_TYPE_LINE: g = new Grid_Generator(Grid_Generator::grid_line($1)); break; default: throw std::invalid_argument(\"invalid grid generator type\"); } #0.tnew(g);",
    {2: "Scalar:PPL_GRID_GENERATOR_TYPE_POINT,PPL_GRID_GENERATOR_TYPE_PARAMETER,PPL_GRID_GENERATOR_TYPE_LINE,17"},
    pre="if (#2.v == PPL_GRID_GENERATOR_TYPE_PARAMETER && #3.t() != 1) R.extra_trig = \"parameter_divisor_not_1\";"),
  R("ppl_new_Grid_Generator_zero_dim_point", r"ppl_new_Grid_Generator_zero_dim_point", VOID, "#0.tnew(new Grid_Generator(Grid_Generator::zero_dim_point()));"),
  R("ppl_Grid_Generator_type", r"ppl_Grid_Generator_type", INT,
    "return $0.is_line() ? (long)PPL_GRID_GENERATOR_TYPE_LINE : $0.is_parameter() ? (long)PPL_GRID_GENERATOR_TYPE_PARAMETER : (long)PPL_GRID_GENERATOR_TYPE_POINT;"),
  # ---- systems
  R("ppl_new_@SYSTEM@", r"ppl_new_(?P<C>" + SYS + ")", VOID, "#0.tnew(new %(C)s());"),
  R("ppl_new_@SYSTEM@_zero_dim_@X@", r"ppl_new_(?P<C>" + SYS + ")_(?P<M>zero_dim_empty|zero_dim_univ)", VOID, "#0.tnew(new %(C)s(%(C)s::%(M)s()));"),
  R("ppl_new_@SYSTEM@_from_@ROW@", r"ppl_new_(?P<C>" + SYS + ")_from_(?P<E>" + ROW + ")", VOID, "#0.tnew(new %(C)s($1));"),
  R("ppl_@SYSTEM@_empty", r"ppl_(?P<C>" + SYS + ")_empty", BOOL, "return $0.empty();"),
  R("ppl_Constraint_System_has_strict_inequalities", r"ppl_Constraint_System_has_strict_inequalities", BOOL, "return $0.has_strict_inequalities();"),
  R("ppl_@SYSTEM@_clear", r"ppl_(?P<C>" + SYS + ")_clear", VOID, "$0.clear();"),
  R("ppl_@SYSTEM@_insert_@ROW@", r"ppl_(?P<C>" + SYS + ")_insert_(?P<E>" + ROW + ")", VOID, "$0.insert($1);"),
  # ---- iterators over systems
  R("ppl_new_@SYSTEM@_const_iterator", r"ppl_new_(?P<C>" + SYS + ")_const_iterator", VOID, "R.extra_new = 1;",
    {0: "IterNew:ppl_delete_%(C)s_const_iterator"}),
  R("ppl_new_@SYSTEM@_const_iterator_from_@SYSTEM@_const_iterator", r"ppl_new_(?P<C>" + SYS + r")_const_iterator_from_(?P=C)_const_iterator", VOID, "R.extra_new = 1;",
    {0: "IterNew:ppl_delete_%(C)s_const_iterator", 1: "Custom:Iter<%(C)s>(IT_ANY)"},
    post="if (R.rc == 0 && #0.slot) R.expect(*static_cast<%(C)s::const_iterator*>(#0.slot) == #1.cit(), \"capi:result-differs\", \"copy differs from the source iterator\", \"equal iterators\");"),
  R("ppl_delete_@SYSTEM@_const_iterator", r"ppl_delete_(?P<C>" + SYS + ")_const_iterator", VOID, "",
    {0: "Custom:Iter<%(C)s>(IT_DEL)"}, post="if (R.rc == 0) { #0.cgone(); if (G.mode == MODE_MAIN) R.expect(R.live_after < R.live_before, \"life:not-released\", \"no ::operator new block was released by the delete function\", \"the object is released\"); }"),
  R("ppl_assign_@SYSTEM@_const_iterator_from_@SYSTEM@_const_iterator", r"ppl_assign_(?P<C>" + SYS + r")_const_iterator_from_(?P=C)_const_iterator", VOID,
    "#0.t1() = #0.t2();", {0: "Custom2:IterPair<%(C)s>(false)"}),
  R("ppl_@SYSTEM@_@BEGINEND@", r"ppl_(?P<C>" + SYS + ")_(?P<M>begin|end)", VOID, "$1 = $0.%(M)s();",
    {1: "Custom:Iter<%(C)s>(IT_SCRATCH)"},
    post="if (R.rc == 0) R.expect(#1.cit() == static_cast<const %(C)s&>(#0.cobj()).%(M)s(), \"capi:result-differs\", \"iterator differs from %(M)s()\", \"%(M)s() of the system\");"),
  R("ppl_@SYSTEM@_const_iterator_dereference", r"ppl_(?P<C>" + SYS + ")_const_iterator_dereference", VOID, "#1.tref(*$0);",
    {0: "Custom:Iter<%(C)s>(IT_DEREF)"}),
  R("ppl_@SYSTEM@_const_iterator_increment", r"ppl_(?P<C>" + SYS + ")_const_iterator_increment", VOID, "++$0;", {0: "Custom:Iter<%(C)s>(IT_DEREF)"}),
  R("ppl_@SYSTEM@_const_iterator_equal_test", r"ppl_(?P<C>" + SYS + ")_const_iterator_equal_test", BOOL, "return #0.t1() == #0.t2();",
    {0: "Custom2:IterPair<%(C)s>(false)"}),
  # ---- MIP problems
  R("ppl_new_MIP_Problem_from_space_dimension", r"ppl_new_MIP_Problem_from_space_dimension", VOID, "#0.tnew(new MIP_Problem($1));", {1: "DimSmall"}),
  R("ppl_new_MIP_Problem", r"ppl_new_MIP_Problem", VOID,
    "#0.tnew(new MIP_Problem($1, $2, $3, $4 == PPL_OPTIMIZATION_MODE_MINIMIZATION ? MINIMIZATION : MAXIMIZATION));",
    {1: "DimSmall", 4: "Scalar:PPL_OPTIMIZATION_MODE_MAXIMIZATION,PPL_OPTIMIZATION_MODE_MINIMIZATION"}),
  R("ppl_MIP_Problem_number_of_integer_space_dimensions", r"ppl_MIP_Problem_number_of_integer_space_dimensions", VOID, "$1 = $0.integer_space_dimensions().size();"),
  R("ppl_MIP_Problem_integer_space_dimensions", r"ppl_MIP_Problem_integer_space_dimensions", VOID, "#1.set($0.integer_space_dimensions());", {1: "DimArrOut"}),
  R("ppl_@XIP@_Problem_number_of_constraints", r"ppl_(?P<C>MIP|PIP)_Problem_number_of_constraints", VOID, "$1 = (size_t)($0.constraints_end() - $0.constraints_begin());"),
  R("ppl_@XIP@_Problem_constraint_at_index", r"ppl_(?P<C>MIP|PIP)_Problem_constraint_at_index", VOID,
    "#1.tref(*($0.constraints_begin() + #0.v2()));", {0: "Custom2v:ProbIdx<%(C)s_Problem >"}),
  R("ppl_MIP_Problem_objective_function", r"ppl_MIP_Problem_objective_function", VOID, "#1.tref($0.objective_function());"),
  R("ppl_MIP_Problem_optimization_mode", r"ppl_MIP_Problem_optimization_mode", INT,
    "return $0.optimization_mode() == MINIMIZATION ? (long)PPL_OPTIMIZATION_MODE_MINIMIZATION : (long)PPL_OPTIMIZATION_MODE_MAXIMIZATION;"),
  R("ppl_@XIP@_Problem_clear", r"ppl_(?P<C>MIP|PIP)_Problem_clear", VOID, "$0.clear();"),
  R("ppl_MIP_Problem_add_space_dimensions_and_embed", r"ppl_MIP_Problem_add_space_dimensions_and_embed", VOID, "$0.add_space_dimensions_and_embed($1);", {1: "DimSmall"}),
  R("ppl_MIP_Problem_add_to_integer_space_dimensions", r"ppl_MIP_Problem_add_to_integer_space_dimensions", VOID, "$0.add_to_integer_space_dimensions($1);"),
  R("ppl_@XIP@_Problem_add_constraint", r"ppl_(?P<C>MIP|PIP)_Problem_add_constraint", VOID, "$0.add_constraint($1);"),
  R("ppl_@XIP@_Problem_add_constraints", r"ppl_(?P<C>MIP|PIP)_Problem_add_constraints", VOID, "$0.add_constraints($1);"),
  R("ppl_MIP_Problem_set_objective_function", r"ppl_MIP_Problem_set_objective_function", VOID, "$0.set_objective_function($1);"),
  R("ppl_MIP_Problem_set_optimization_mode", r"ppl_MIP_Problem_set_optimization_mode", VOID,
    "$0.set_optimization_mode($1 == PPL_OPTIMIZATION_MODE_MINIMIZATION ? MINIMIZATION : MAXIMIZATION);",
    {1: "Scalar:PPL_OPTIMIZATION_MODE_MAXIMIZATION,PPL_OPTIMIZATION_MODE_MINIMIZATION"}),
  R("ppl_@XIP@_Problem_is_satisfiable", r"ppl_(?P<C>MIP|PIP)_Problem_is_satisfiable", BOOL, "return $0.is_satisfiable();"),
  R("ppl_MIP_Problem_solve", r"ppl_MIP_Problem_solve", INT,
    "MIP_Problem_Status s = $0.solve(); return s == UNFEASIBLE_MIP_PROBLEM ? (long)PPL_MIP_PROBLEM_STATUS_UNFEASIBLE : s == UNBOUNDED_MIP_PROBLEM ? (long)PPL_MIP_PROBLEM_STATUS_UNBOUNDED : (long)PPL_MIP_PROBLEM_STATUS_OPTIMIZED;"),
  R("ppl_MIP_Problem_evaluate_objective_function", r"ppl_MIP_Problem_evaluate_objective_function", VOID, "$0.evaluate_objective_function($1, $2, $3);"),
  R("ppl_MIP_Problem_@POINT@", r"ppl_MIP_Problem_(?P<M>feasible_point|optimizing_point)", VOID, "#1.tref($0.%(M)s());"),
  R("ppl_MIP_Problem_optimal_value", r"ppl_MIP_Problem_optimal_value", VOID, "$0.optimal_value($1, $2);"),
  R("ppl_MIP_Problem_get_control_parameter", r"ppl_MIP_Problem_get_control_parameter", INT,
    "MIP_Problem::Control_Parameter_Value v = $0.get_control_parameter(MIP_Problem::PRICING);"
    " return v == MIP_Problem::PRICING_STEEPEST_EDGE_FLOAT ? (long)PPL_MIP_PROBLEM_CONTROL_PARAMETER_PRICING_STEEPEST_EDGE_FLOAT"
    " : v == MIP_Problem::PRICING_STEEPEST_EDGE_EXACT ? (long)PPL_MIP_PROBLEM_CONTROL_PARAMETER_PRICING_STEEPEST_EDGE_EXACT : (long)PPL_MIP_PROBLEM_CONTROL_PARAMETER_PRICING_TEXTBOOK;",
    {1: "Scalar:PPL_MIP_PROBLEM_CONTROL_PARAMETER_NAME_PRICING"}),
  R("ppl_MIP_Problem_set_control_parameter", r"ppl_MIP_Problem_set_control_parameter", VOID,
    "$0.set_control_parameter($1 == PPL_MIP_PROBLEM_CONTROL_PARAMETER_PRICING_STEEPEST_EDGE_FLOAT ? MIP_Problem::PRICING_STEEPEST_EDGE_FLOAT"
    " : $1 == PPL_MIP_PROBLEM_CONTROL_PARAMETER_PRICING_STEEPEST_EDGE_EXACT ? MIP_Problem::PRICING_STEEPEST_EDGE_EXACT : MIP_Problem::PRICING_TEXTBOOK);",
    {1: "Scalar:PPL_MIP_PROBLEM_CONTROL_PARAMETER_PRICING_TEXTBOOK,PPL_MIP_PROBLEM_CONTROL_PARAMETER_PRICING_STEEPEST_EDGE_EXACT,PPL_MIP_PROBLEM_CONTROL_PARAMETER_PRICING_STEEPEST_EDGE_FLOAT"}),
  R("ppl_@XIP@_Problem_@MEMBYTES@", r"ppl_(?P<C>MIP|PIP)_Problem_(?P<M>total_memory_in_bytes|external_memory_in_bytes)", VOID, "$1 = $0.%(M)s();"),
  # ---- PIP problems
  R("ppl_new_PIP_Problem_from_space_dimension", r"ppl_new_PIP_Problem_from_space_dimension", VOID, "#0.tnew(new PIP_Problem($1));", {1: "DimSmall"}),
  R("ppl_new_PIP_Problem_from_constraints", r"ppl_new_PIP_Problem_from_constraints", VOID,
    "#0.tnew(new PIP_Problem($1, #2.t1(), #2.t2(), $3));", {1: "DimSmall", 2: "Custom2:IterPair<Constraint_System>(true)"}),
  R("ppl_PIP_Problem_number_of_parameter_space_dimensions", r"ppl_PIP_Problem_number_of_parameter_space_dimensions", VOID, "$1 = $0.parameter_space_dimensions().size();"),
  R("ppl_PIP_Problem_parameter_space_dimensions", r"ppl_PIP_Problem_parameter_space_dimensions", VOID, "#1.set($0.parameter_space_dimensions());", {1: "DimArrOut"}),
  R("ppl_PIP_Problem_add_space_dimensions_and_embed", r"ppl_PIP_Problem_add_space_dimensions_and_embed", VOID, "$0.add_space_dimensions_and_embed($1, $2);", {1: "DimSmall", 2: "DimSmall"}),
  R("ppl_PIP_Problem_add_to_parameter_space_dimensions", r"ppl_PIP_Problem_add_to_parameter_space_dimensions", VOID, "$0.add_to_parameter_space_dimensions($1);"),
  R("ppl_PIP_Problem_solve", r"ppl_PIP_Problem_solve", INT,
    "return $0.solve() == UNFEASIBLE_PIP_PROBLEM ? (long)PPL_PIP_PROBLEM_STATUS_UNFEASIBLE : (long)PPL_PIP_PROBLEM_STATUS_OPTIMIZED;"),
  R("ppl_PIP_Problem_@SOLUTION@", r"ppl_PIP_Problem_(?P<M>solution|optimizing_solution)", VOID,
    "const PIP_Tree_Node* n = $0.%(M)s(); std::ostringstream s; if (n) n->ascii_dump(s); else s << \"(null)\"; #1.t = s.str();", {1: "Custom:NodeOut"}),
  R("ppl_PIP_Problem_get_control_parameter", r"ppl_PIP_Problem_get_control_parameter", INT,
    "PIP_Problem::Control_Parameter_Name n = ($1 == PPL_PIP_PROBLEM_CONTROL_PARAMETER_NAME_CUTTING_STRATEGY) ? PIP_Problem::CUTTING_STRATEGY : PIP_Problem::PIVOT_ROW_STRATEGY;"
    " PIP_Problem::Control_Parameter_Value v = $0.get_control_parameter(n);"
    " return v == PIP_Problem::CUTTING_STRATEGY_FIRST ? (long)PPL_PIP_PROBLEM_CONTROL_PARAMETER_CUTTING_STRATEGY_FIRST : v == PIP_Problem::CUTTING_STRATEGY_DEEPEST ? (long)PPL_PIP_PROBLEM_CONTROL_PARAMETER_CUTTING_STRATEGY_DEEPEST"
    " : v == PIP_Problem::CUTTING_STRATEGY_ALL ? (long)PPL_PIP_PROBLEM_CONTROL_PARAMETER_CUTTING_STRATEGY_ALL : v == PIP_Problem::PIVOT_ROW_STRATEGY_FIRST ? (long)PPL_PIP_PROBLEM_CONTROL_PARAMETER_PIVOT_ROW_STRATEGY_FIRST"
    " : (long)PPL_PIP_PROBLEM_CONTROL_PARAMETER_PIVOT_ROW_STRATEGY_MAX_COLUMN;",
    {1: "Scalar:PPL_PIP_PROBLEM_CONTROL_PARAMETER_NAME_CUTTING_STRATEGY,PPL_PIP_PROBLEM_CONTROL_PARAMETER_NAME_PIVOT_ROW_STRATEGY"}),
  R("ppl_PIP_Problem_set_control_parameter", r"ppl_PIP_Problem_set_control_parameter", VOID,
    "$0.set_control_parameter($1 == PPL_PIP_PROBLEM_CONTROL_PARAMETER_CUTTING_STRATEGY_FIRST ? PIP_Problem::CUTTING_STRATEGY_FIRST : $1 == PPL_PIP_PROBLEM_CONTROL_PARAMETER_CUTTING_STRATEGY_DEEPEST ? PIP_Problem::CUTTING_STRATEGY_DEEPEST"
    " : $1 == PPL_PIP_PROBLEM_CONTROL_PARAMETER_CUTTING_STRATEGY_ALL ? PIP_Problem::CUTTING_STRATEGY_ALL : $1 == PPL_PIP_PROBLEM_CONTROL_PARAMETER_PIVOT_ROW_STRATEGY_FIRST ? PIP_Problem::PIVOT_ROW_STRATEGY_FIRST : PIP_Problem::PIVOT_ROW_STRATEGY_MAX_COLUMN);",
    {1: "Scalar:PPL_PIP_PROBLEM_CONTROL_PARAMETER_CUTTING_STRATEGY_DEEPEST,PPL_PIP_PROBLEM_CONTROL_PARAMETER_CUTTING_STRATEGY_FIRST,PPL_PIP_PROBLEM_CONTROL_PARAMETER_CUTTING_STRATEGY_ALL,PPL_PIP_PROBLEM_CONTROL_PARAMETER_PIVOT_ROW_STRATEGY_FIRST,PPL_PIP_PROBLEM_CONTROL_PARAMETER_PIVOT_ROW_STRATEGY_MAX_COLUMN"}),
  R("ppl_PIP_Problem_get_big_parameter_dimension", r"ppl_PIP_Problem_get_big_parameter_dimension", VOID, "$1 = $0.get_big_parameter_dimension();"),
  R("ppl_PIP_Problem_set_big_parameter_dimension", r"ppl_PIP_Problem_set_big_parameter_dimension", VOID, "$0.set_big_parameter_dimension($1);"),
  # ---- PIP tree nodes
  R("ppl_PIP_Tree_Node_as_@KIND@", r"ppl_PIP_Tree_Node_as_(?P<M>solution|decision)", VOID, "#1.t = (const void*)$0.as_%(M)s() != 0;", {0: "Custom:Node(N_ANY)", 1: "Custom:NullnessOut"},
    post="if (R.rc == 0) R.expect(#1.slot == (const void*)#0.cn()->as_%(M)s(), \"capi:result-differs\", \"handle differs from as_%(M)s() of the node\", \"as_%(M)s()\");"),
  R("ppl_PIP_Tree_Node_get_constraints", r"ppl_PIP_Tree_Node_get_constraints", VOID, "#1.tref($0.constraints());", {0: "Custom:Node(N_ANY)"}),
  R("ppl_PIP_@NODE@_OK", r"ppl_PIP_(?P<K>Tree_Node|Solution_Node|Decision_Node)_OK", BOOL, "return $0.OK();", {0: "Custom:Node(%(NSEL)s)"}),
  R("ppl_PIP_Tree_Node_number_of_artificials", r"ppl_PIP_Tree_Node_number_of_artificials", VOID, "$1 = $0.art_parameter_count();", {0: "Custom:Node(N_ANY)"}),
  R("ppl_PIP_Tree_Node_@BEGINEND@", r"ppl_PIP_Tree_Node_(?P<M>begin|end)", VOID, "$1 = $0.art_parameter_%(M)s();",
    {0: "Custom:Node(N_ANY)", 1: "Custom:ArtIter(IT_SCRATCH)"},
    post="if (R.rc == 0) R.expect(#1.cit() == #0.cn()->art_parameter_%(M)s(), \"capi:result-differs\", \"iterator differs from art_parameter_%(M)s()\", \"art_parameter_%(M)s()\");"),
  R("ppl_PIP_Solution_Node_get_parametric_values", r"ppl_PIP_Solution_Node_get_parametric_values", VOID, "#2.tref(#0.tsol().parametric_values(Variable($1)));",
    {0: "Custom:Node(N_SOL)"}),
  R("ppl_PIP_Decision_Node_get_child_node", r"ppl_PIP_Decision_Node_get_child_node", VOID, "#2.t = #0.tdec().child_node($1 != 0) != 0;",
    {0: "Custom:Node(N_DEC)", 1: "Scalar:1,0,2", 2: "Custom:NullnessOut"},
    post="if (R.rc == 0) R.expect(#2.slot == (const void*)#0.cn()->as_decision()->child_node(#1.v != 0), \"capi:result-differs\", \"handle differs from child_node()\", \"child_node(b)\");"),
  R("ppl_PIP_@NODE@_ascii_dump", r"ppl_PIP_(?P<K>Tree_Node|Solution_Node|Decision_Node)_ascii_dump", VOID, "std::ostringstream s; %(NACC)s.ascii_dump(s); $1 = s.str();",
    {0: "Custom:Node(%(NSEL)s)"}),
  R("ppl_PIP_@NODE@_ascii_load", r"ppl_PIP_(?P<K>Tree_Node|Solution_Node|Decision_Node)_ascii_load", LOAD, "return %(NLOAD)s;",
    {0: "Custom:NodeClone(%(NSEL)s)", 1: "Custom:NodeText(%(NSEL)s)"}),
  R("ppl_io_print_PIP_@NODE@", r"ppl_io_print_PIP_(?P<K>Tree_Node|Solution_Node|Decision_Node)", VOID, "using namespace IO_Operators; std::ostringstream s; s << %(NACC)s; R.s1 = s.str();", {0: "Custom:Node(%(NSEL)s)"}, stdout=True, post=PRINT_POST),
  R("ppl_io_fprint_PIP_@NODE@", r"ppl_io_fprint_PIP_(?P<K>Tree_Node|Solution_Node|Decision_Node)", VOID, "using namespace IO_Operators; std::ostringstream s; s << %(NACC1)s; $0 = s.str();",
    {1: "Custom:Node(%(NSEL)s)"}),
  R("ppl_io_asprint_PIP_@NODE@", r"ppl_io_asprint_PIP_(?P<K>Tree_Node|Solution_Node|Decision_Node)", VOID, "using namespace IO_Operators; std::ostringstream s; s << %(NACC1)s; $0 = s.str();",
    {1: "Custom:Node(%(NSEL)s)"}),
  # ---- artificial parameters
  R("ppl_Artificial_Parameter_get_Linear_Expression", r"ppl_Artificial_Parameter_get_Linear_Expression", VOID, "$1 = $0;", {0: "Custom:ArtPar", 1: "Obj<Linear_Expression>:MUT:2"}),
  R("ppl_Artificial_Parameter_coefficient", r"ppl_Artificial_Parameter_coefficient", VOID, "$2 = $0.coefficient(Variable($1));", {0: "Custom:ArtPar"}),
  R("ppl_Artificial_Parameter_inhomogeneous_term", r"ppl_Artificial_Parameter_inhomogeneous_term", VOID, "$1 = $0.inhomogeneous_term();", {0: "Custom:ArtPar"}),
  R("ppl_Artificial_Parameter_denominator", r"ppl_Artificial_Parameter_denominator", VOID, "$1 = $0.denominator();", {0: "Custom:ArtPar"}),
  R("ppl_Artificial_Parameter_ascii_dump", r"ppl_Artificial_Parameter_ascii_dump", VOID, "std::ostringstream s; $0.ascii_dump(s); $1 = s.str();", {0: "Custom:ArtPar"}),
  R("ppl_Artificial_Parameter_ascii_load", r"ppl_Artificial_Parameter_ascii_load", LOAD, "return $0.ascii_load($1);", {0: "Obj<PIP_Tree_Node::Artificial_Parameter>:MUT", 1: "FileR<PIP_Tree_Node::Artificial_Parameter>"}),
  R("ppl_io_print_Artificial_Parameter", r"ppl_io_print_Artificial_Parameter", VOID, PRINT_TWIN, {0: "Custom:ArtPar"}, stdout=True, post=PRINT_POST),
  R("ppl_io_fprint_Artificial_Parameter", r"ppl_io_fprint_Artificial_Parameter", VOID, "using namespace IO_Operators; std::ostringstream s; s << $1; $0 = s.str();", {1: "Custom:ArtPar"}),
  R("ppl_io_asprint_Artificial_Parameter", r"ppl_io_asprint_Artificial_Parameter", VOID, "using namespace IO_Operators; std::ostringstream s; s << $1; $0 = s.str();", {1: "Custom:ArtPar"}),
  R("ppl_new_Artificial_Parameter_Sequence_const_iterator", r"ppl_new_Artificial_Parameter_Sequence_const_iterator", VOID, "R.extra_new = 1;",
    {0: "IterNew:ppl_delete_Artificial_Parameter_Sequence_const_iterator"}),
  R("ppl_new_Artificial_Parameter_Sequence_const_iterator_from_Artificial_Parameter_Sequence_const_iterator",
    r"ppl_new_Artificial_Parameter_Sequence_const_iterator_from_Artificial_Parameter_Sequence_const_iterator", VOID, "R.extra_new = 1;",
    {0: "IterNew:ppl_delete_Artificial_Parameter_Sequence_const_iterator", 1: "Custom:ArtIter(IT_ANY)"},
    post="if (R.rc == 0 && #0.slot) R.expect(*static_cast<ArtTr::type*>(#0.slot) == #1.cit(), \"capi:result-differs\", \"copy differs from the source iterator\", \"equal iterators\");"),
  R("ppl_delete_Artificial_Parameter_Sequence_const_iterator", r"ppl_delete_Artificial_Parameter_Sequence_const_iterator", VOID, "", {0: "Custom:ArtIter(IT_DEL)"},
    post="if (R.rc == 0) { #0.cgone(); if (G.mode == MODE_MAIN) R.expect(R.live_after < R.live_before, \"life:not-released\", \"no ::operator new block was released by the delete function\", \"the object is released\"); }"),
  R("ppl_assign_Artificial_Parameter_Sequence_const_iterator_from_Artificial_Parameter_Sequence_const_iterator",
    r"ppl_assign_Artificial_Parameter_Sequence_const_iterator_from_Artificial_Parameter_Sequence_const_iterator", VOID, "#0.t1() = #0.t2();", {0: "Custom2:ArtIterPair"}),
  R("ppl_Artificial_Parameter_Sequence_const_iterator_dereference", r"ppl_Artificial_Parameter_Sequence_const_iterator_dereference", VOID, "#1.tref(*$0);",
    {0: "Custom:ArtIter(IT_DEREF)", 1: "Obj<PIP_Tree_Node::Artificial_Parameter>:REF"}),
  R("ppl_Artificial_Parameter_Sequence_const_iterator_increment", r"ppl_Artificial_Parameter_Sequence_const_iterator_increment", VOID, "++$0;", {0: "Custom:ArtIter(IT_DEREF)"}),
  R("ppl_Artificial_Parameter_Sequence_const_iterator_equal_test", r"ppl_Artificial_Parameter_Sequence_const_iterator_equal_test", BOOL, "return #0.t1() == #0.t2();", {0: "Custom2:ArtIterPair"}),
  # ---- library level
  R("ppl_version_@PART@", r"ppl_version_(?P<M>major|minor|revision|beta)", INT, "return (long)version_%(M)s();"),
  R("ppl_version", r"ppl_version", VOID, "$0 = Parma_Polyhedra_Library::version();", {0: "Custom:CStrOut"}),
  R("ppl_banner", r"ppl_banner", VOID, "$0 = banner();", {0: "Custom:CStrOut"}),
  R("ppl_max_space_dimension", r"ppl_max_space_dimension", VOID, "$0 = max_space_dimension();"),
  R("ppl_not_a_dimension", r"ppl_not_a_dimension", VOID, "$0 = not_a_dimension();"),
  R("ppl_irrational_precision", r"ppl_irrational_precision", VOID, "$0 = irrational_precision();", {0: "Out<unsigned>:12345"}),
  R("ppl_set_irrational_precision", r"ppl_set_irrational_precision", VOID, "set_irrational_precision((unsigned)$0);", {0: "Scalar:128,0,64,4294967295u"},
    post="{ unsigned now = irrational_precision(); set_irrational_precision(128); if (R.tcode == 0) R.expect(now == (unsigned)#0.v, \"capi:result-differs\", itos(now), itos(#0.v)); }",
    pre="set_irrational_precision(128);"),
  R("ppl_@SETRESTORE@_rounding", r"ppl_(?P<M>set_rounding_for_PPL|restore_pre_PPL_rounding)", VOID, ""),
  R("ppl_io_print_variable", r"ppl_io_print_variable", VOID, "", {0: "Scalar:0,1,26,701"}, stdout=True,
    post="{ using namespace IO_Operators; std::ostringstream s; s << Variable(#0.v) << \"\\n\"; if (R.rc >= 0) R.expect(R.cout_text == s.str(), \"capi:output-differs\", brief(R.cout_text), brief(s.str())); }"),
  R("ppl_io_fprint_variable", r"ppl_io_fprint_variable", VOID, "using namespace IO_Operators; std::ostringstream s; s << Variable($1); $0 = s.str();", {1: "Scalar:0,1,26,701"}),
  R("ppl_io_asprint_variable", r"ppl_io_asprint_variable", VOID, "using namespace IO_Operators; std::ostringstream s; s << Variable($1); $0 = s.str();", {1: "Scalar:0,1,26,701"}),
]

def fixed_env(env):
    k = env.get("K")
    if k:
        env["NSEL"] = {"Tree_Node": "N_ANY", "Solution_Node": "N_SOL", "Decision_Node": "N_DEC"}[k]
        acc = {"Tree_Node": "#%d.t()", "Solution_Node": "#%d.tsol()", "Decision_Node": "#%d.tdec()"}[k]
        env["NACC"], env["NACC1"] = acc % 0, acc % 1
        env["NLOAD"] = {"Tree_Node": "$0.ascii_load($1)", "Solution_Node": "static_cast<PIP_Solution_Node&>($0).ascii_load($1)",
                        "Decision_Node": "static_cast<PIP_Decision_Node&>($0).ascii_load($1)"}[k]
    return env

# entry points driven by hand-written code of harness/c20_main.cc (scenario "lib": initialisation, error handler, timeouts, output function)
MANUAL = ["ppl_initialize", "ppl_finalize", "ppl_thread_initialize", "ppl_thread_finalize", "ppl_set_error_handler",
          "ppl_set_timeout", "ppl_reset_timeout", "ppl_set_deterministic_timeout", "ppl_reset_deterministic_timeout",
          "ppl_io_set_variable_output_function", "ppl_io_get_variable_output_function", "ppl_io_wrap_string"]

# ------------------------------------------------------------------------------------------------
# per-domain rules with custom roles
# ------------------------------------------------------------------------------------------------
PS_IT_POST = ("if (R.rc == 0 && #0.slot) R.expect(*static_cast<%(T)s::%(ITK)s*>(#0.slot) == #1.cit(), \"capi:result-differs\", "
              "\"copy differs from the source iterator\", \"equal iterators\");")

EXTRA_DOMAIN_RULES = [
  R("ppl_new_@CLASS@_iterator", r"ppl_new_{D}_(?P<ITK>iterator|const_iterator)", VOID, "R.extra_new = 1;", {0: "IterNew:ppl_delete_%(D)s_%(ITK)s"}),
  R("ppl_new_@CLASS@_iterator_from_iterator", r"ppl_new_{D}_(?P<ITK>iterator|const_iterator)_from_(?P=ITK)", VOID, "R.extra_new = 1;",
    {0: "IterNew:ppl_delete_%(D)s_%(ITK)s", 1: "Custom:Iter<%(T)s, %(ITTR)s >(IT_ANY)"}, post=PS_IT_POST),
  R("ppl_delete_@CLASS@_iterator", r"ppl_delete_{D}_(?P<ITK>iterator|const_iterator)", VOID, "", {0: "Custom:Iter<%(T)s, %(ITTR)s >(IT_DEL)"},
    post="if (R.rc == 0) { #0.cgone(); if (G.mode == MODE_MAIN) R.expect(R.live_after < R.live_before, \"life:not-released\", \"no ::operator new block was released by the delete function\", \"the object is released\"); }"),
  R("ppl_@CLASS@_iterator_equal_test", r"ppl_{D}_(?P<ITK>iterator|const_iterator)_equal_test", BOOL, "return #0.t1() == #0.t2();",
    {0: "Custom2:IterPair<%(T)s, %(ITTR)s >(false)"}),
  R("ppl_@CLASS@_iterator_@BEGINEND@", r"ppl_{D}_(?P<ITK>iterator|const_iterator)_(?P<M>begin|end)", VOID, "",
    {0: "Obj<%(T)s>:MUT", 1: "Custom:Iter<%(T)s, %(ITTR)s >(IT_SCRATCH)"},
    post="if (R.rc == 0) R.expect(#1.cit() == %(ITTR)s::%(BE)s(#0.cobj()), \"capi:result-differs\", \"iterator differs from %(M)s()\", \"%(M)s() of the powerset\");"),
  R("ppl_@CLASS@_iterator_@INCDEC@", r"ppl_{D}_(?P<ITK>iterator|const_iterator)_(?P<M>increment|decrement)", VOID, "%(INCDEC)s$0;",
    {0: "Custom:Iter<%(T)s, %(ITTR)s >(%(ITFLAG)s)"}),
  R("ppl_@CLASS@_iterator_dereference", r"ppl_{D}_(?P<ITK>iterator|const_iterator)_dereference", VOID, "#1.tref($0->pointset());",
    {0: "Custom:Iter<%(T)s, %(ITTR)s >(IT_DEREF)", 1: "Obj<%(DISJ)s>:REF"}),
  R("ppl_@CLASS@_drop_disjunct", r"ppl_{D}_drop_disjunct", VOID, "#0.tout() = $0.drop_disjunct(#0.t1());", {0: "Custom3:PsIters<%(T)s >(false)"}),
  R("ppl_@CLASS@_drop_disjuncts", r"ppl_{D}_drop_disjuncts", VOID, "$0.drop_disjuncts(#0.t1(), #0.t2());", {0: "Custom3:PsIters<%(T)s >(true)"}),
  R("ppl_@CLASS@_linear_partition", r"ppl_{D}_linear_partition", VOID, "%(LP_TWIN)s", {0: "Obj<%(T)s>:CST:6", 1: "Obj<%(T)s>:CST:6", 2: "Custom:OutPtr", 3: "Custom:OutPtr"},
    post="if (R.rc == 0 && R.tcode == 0) { if (on_dead_stack(#2.slot) || on_dead_stack(#3.slot)) { R.extra_trig = \"handle_into_dead_frame\"; "
         "R.fail(\"capi:dangling-handle\", \"*p_inters / *p_rest point into the stack frame of the returned function\", \"handles of heap objects owned by the caller\"); } "
         "else { %(LP_COMPARE)s } }"),
]

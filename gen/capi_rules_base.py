"""C20: rule record shared by capi_rules.py and capi_rules_fixed.py."""
VOID, BOOL, INT, LOAD = "K_VOID", "K_BOOL", "K_INT", "K_LOAD"

class Rule(object):
    def __init__(self, label, regex, kind, twin, roles=None, post="", pre="", stdout=False):
        self.label, self.regex, self.kind, self.twin = label, regex, kind, twin
        self.roles = roles or {}
        self.post, self.pre, self.stdout = post, pre, stdout

def R(*a, **k):
    return Rule(*a, **k)

"""C20: mapping of the prototypes of ppl_c.h to stub patterns, and emission of the C++ stubs.

A rule is  R(label, regex, kind, twin, roles={}, setup="", post="", flags=...)
  label  the finding *site* (schematic name of the entry point)
  regex  full match on the function name; {D} = interface name of the current domain;
         named groups are available in the templates as %(NAME)s
  kind   VOID (rc >= 0), BOOL (rc > 0 / rc == 0), INT (rc == value), LOAD (0 / PPL_STDIO_ERROR)
  twin   C++ statements performing the operation on the twins.  $i = twin value of role i,
         #i = the role object itself.  BOOL/INT twins must `return` the value.
  roles  overrides of the role inferred from the C type of a parameter (index = role index)
"""
import re, os, json


FIXED_CLASSES = {
    "Coefficient": "Coefficient", "Linear_Expression": "Linear_Expression", "Constraint": "Constraint",
    "Constraint_System": "Constraint_System", "Generator": "Generator", "Generator_System": "Generator_System",
    "Congruence": "Congruence", "Congruence_System": "Congruence_System", "Grid_Generator": "Grid_Generator",
    "Grid_Generator_System": "Grid_Generator_System", "MIP_Problem": "MIP_Problem", "PIP_Problem": "PIP_Problem",
}

from capi_rules_base import R, Rule, VOID, BOOL, INT, LOAD

# ------------------------------------------------------------------------------------------------
# C++ type of an interface class name
# ------------------------------------------------------------------------------------------------
def cpp_of(name, classes):
    if name in FIXED_CLASSES:
        return FIXED_CLASSES[name]
    if name in ("C_Polyhedron", "NNC_Polyhedron", "Polyhedron"):
        return name
    for (i, c) in classes:
        if i == name:
            m = re.match(r"(\w+)_Product<(.*)>$", c)
            if m:
                return "Domain_Product<%s >::%s_Product" % (m.group(2), m.group(1))
            return c.replace(">>", "> >")
    return None

# ------------------------------------------------------------------------------------------------
# role inference
# ------------------------------------------------------------------------------------------------
class Role(object):
    def __init__(self, decl, call, acc, nparams=1):
        self.decl, self.call, self.acc, self.nparams = decl, call, acc, nparams

def split_param(p):
    p = " ".join(p.split())
    m = re.match(r"^(.*?)(\w+)(\[\])?$", p)
    typ, name, arr = m.group(1).strip(), m.group(2), m.group(3)
    if arr:
        typ += "[]"
    return typ, name

def role_from_spec(spec, var, ctype, pname, classes, more_ctypes=()):
    """spec examples: 'Obj<Grid>:MUT', 'NEW:C_Polyhedron', 'DimSmall', 'FileR<Grid>', 'Scalar:0,1,2' ..."""
    q = '"%s"' % pname
    def obj(cpp, mode, extra=""):
        if mode in ("NEW", "REF"):
            return Role("Obj<%s > %s(R, %s, %s%s);" % (cpp, var, q, mode, extra), "(%s)%s.pp()" % (ctype, var), "%s.t()" % var)
        return Role("Obj<%s > %s(R, %s, %s%s);" % (cpp, var, q, mode, extra), "(%s)%s.p()" % (ctype, var), "%s.t()" % var)
    m = re.match(r"Obj<(.*)>:(\w+)(?::(\d+))?(?::(\d+))?$", spec)
    if m:
        extra = ""
        if m.group(2) == "NEW":
            cls = re.match(r"ppl_(\w+)_t\s*\*", ctype).group(1)
            extra = ", (DelFn)ppl_delete_%s" % cls
        if m.group(3):
            extra = (extra or ", 0") + ", " + m.group(3)
        if m.group(4):
            extra += ", " + m.group(4)
        return obj(m.group(1), m.group(2), extra)
    if spec in ("Dim", "DimSmall"):
        return Role("%s %s(R, %s);" % (spec, var, q), "(%s)%s.v" % (ctype, var), "((size_t)%s.v)" % var)
    m = re.match(r"Scalar:(.*)$", spec)
    if m:
        adds = "".join(".add(%s)" % v for v in m.group(1).split(","))
        return Role("Scalar %s(R, %s); %s%s;" % (var, q, var, adds), "(%s)%s.v" % (ctype, var), "%s.v" % var)
    if spec == "RelSym":
        return Role("RelSym %s(R, %s);" % (var, q), "(%s)%s.v" % (ctype, var), "%s.v" % var)
    m = re.match(r"Complexity:(\d)$", spec)
    if m:
        return Role("Complexity %s(R, %s, %s);" % (var, q, "true" if m.group(1) == "1" else "false"), "(%s)%s.v" % (ctype, var), "%s.v" % var)
    m = re.match(r"Out<(.*)>:(.*)$", spec)
    if m:
        return Role("Out<%s > %s(R, %s, %s);" % (m.group(1), var, q, m.group(2)), "%s.p()" % var, "%s.t" % var)
    if spec == "Tokens":
        return Role("Tokens %s(R, %s);" % (var, q), "%s.p()" % var, "%s.tp()" % var)
    if spec in ("DimArr", "DimArrMap"):
        return Role("DimArr %s(R, %s, %s);" % (var, q, "true" if spec == "DimArrMap" else "false"), "%s.p(), %s.n()" % (var, var), "%s.vs()" % var, 2)
    if spec == "DimArrRev":
        return Role("DimArr %s(R, %s, false);" % (var, q), "%s.n(), %s.p()" % (var, var), "%s.vs()" % var, 2)
    if spec == "DimArrOut":
        return Role("DimArrOut %s(R, %s);" % (var, q), "%s.p()" % var, "%s" % var)
    if spec == "FileW":
        return Role("FileW %s(R, %s);" % (var, q), "%s.p()" % var, "%s.t" % var)
    m = re.match(r"FileR<(.*)>$", spec)
    if m:
        return Role("FileR<%s > %s(R, %s);" % (m.group(1), var, q), "%s.p()" % var, "%s.is()" % var)
    if spec == "StrOut":
        return Role("StrOut %s(R, %s);" % (var, q), "%s.p()" % var, "%s.t" % var)
    if spec in ("MpzIn", "MpzOut"):
        return Role("Mpz %s(R, %s, %s);" % (var, q, "true" if spec == "MpzOut" else "false"), "%s.p()" % var, "%s.t" % var)
    if spec == "CSPtr":
        return Role("CSPtr %s(R, %s);" % (var, q), "(%s)%s.p()" % (ctype, var), "%s.tp()" % var)
    m = re.match(r"IterNew:(\w+)$", spec)
    if m:
        return Role("IterNew %s(R, %s, (DelFn)%s);" % (var, q, m.group(1)), "(%s)%s.pp()" % (ctype, var), "%s" % var)
    m = re.match(r"Custom(2|2v|3)?:([^()]+)(?:\((.*)\))?$", spec)      # role classes of c20_rt2.hh
    if m:
        n, cls, cargs = m.group(1), m.group(2).strip(), m.group(3)
        decl = "%s %s(R, %s%s);" % (cls, var, q, (", " + cargs) if cargs else "")
        cts = [ctype] + list(more_ctypes)
        if not n:
            if cls in ("OutPtr", "NodeOut", "NullnessOut"):
                return Role(decl, "(%s)%s.pp()" % (ctype, var), "%s.t" % var)
            if cls == "CStrOut":
                return Role(decl, "%s.p()" % var, "%s.t" % var)
            return Role(decl, "(%s)%s.p()" % (ctype, var), "%s.t()" % var)
        if n == "2":
            return Role(decl, "(%s)%s.p1(), (%s)%s.p2()" % (cts[0], var, cts[1], var), "%s" % var, 2)
        if n == "2v":
            return Role(decl, "(%s)%s.p1(), (%s)%s.v2()" % (cts[0], var, cts[1], var), "%s.t()" % var, 2)
        if n == "3":
            third = "pout" if "false" in (cargs or "") else "p2"
            second = "p1"
            return Role(decl, "(%s)%s.ps(), (%s)%s.%s(), (%s)%s.%s()" % (cts[0], var, cts[1], var, second, cts[2], var, third), "%s.t()" % var, 3)
    raise ValueError("bad role spec " + spec)

def infer_role(ctype, pname, nxt, var, classes):
    """Default role for a C parameter type; returns spec string or None."""
    t = ctype.replace(" *", "*").replace("* ", "*")
    m = re.match(r"^ppl_const_(\w+)_t$", t)
    if m:
        cpp = cpp_of(m.group(1), classes)
        return "Obj<%s>:CST" % cpp if cpp else None
    m = re.match(r"^ppl_(\w+)_t$", t)
    if m and not m.group(1).startswith("const_") and m.group(1) not in ("dimension",):
        cpp = cpp_of(m.group(1), classes)
        if not cpp:
            return None
        if cpp == "Coefficient":
            return "Obj<Coefficient>:MUT:1:1"      # out coefficient: pre-loaded with the non-trivial menu entry 2
        return "Obj<%s>:MUT" % cpp
    m = re.match(r"^ppl_const_(\w+)_t\*$", t)
    if m:
        cpp = cpp_of(m.group(1), classes)
        return "Obj<%s>:REF" % cpp if cpp else None
    m = re.match(r"^ppl_(\w+)_t\*$", t)
    if m and m.group(1) != "dimension":
        cpp = cpp_of(m.group(1), classes)
        return "Obj<%s>:NEW" % cpp if cpp else None
    if t == "ppl_dimension_type":
        return "Dim"
    if t == "ppl_dimension_type*":
        return "Out<size_t>:0xabcdef"
    if t == "size_t*":
        return "Out<size_t>:0xabcdef"
    if t == "int*":
        return "Out<int>:-77"
    if t == "unsigned*" and pname == "tp":
        return "Tokens"
    if t == "ppl_dimension_type[]" and nxt and nxt[0] == "size_t":
        return "DimArr"
    if t == "size_t" and nxt and nxt[0].replace(" ", "") == "ppl_dimension_type[]":
        return "DimArrRev"
    if t == "enum ppl_enum_Constraint_Type":
        return "RelSym"
    if t == "int" and pname == "complexity":
        return "Complexity:0"
    if t == "FILE*":
        return "FileW"
    if t == "char**":
        return "StrOut"
    if t == "mpz_t":
        return "MpzIn"
    return None

# ------------------------------------------------------------------------------------------------
# rules for the per-domain entry points
# ------------------------------------------------------------------------------------------------
def widen_twin(call):
    return call

DOMAIN_RULES = [
  R("ppl_delete_@CLASS@", r"ppl_delete_{D}", VOID, "#0.tdel();", {0: "Obj<%(T)s>:DEL"}, post="if (R.rc == 0) { #0.cgone(); if (G.mode == MODE_MAIN) R.expect(R.live_after < R.live_before, \"life:not-released\", \"no ::operator new block was released by the delete function\", \"the object is released\"); }"),
  R("ppl_new_@TOPOLOGY@@CLASS@_from_space_dimension", r"ppl_new_(?P<TOP>C_|NNC_)?{D}_from_space_dimension", VOID,
    "#0.tnew(new %(TT)s($1, $2 != 0 ? EMPTY : UNIVERSE));", {1: "DimSmall", 2: "Scalar:0,1,5"}),
  R("ppl_new_@TOPOLOGY@@CLASS@_from_@FRIEND@", r"ppl_new_(?P<TOP>C_|NNC_)?{D}_from_(?P<F>{FRIENDS})", VOID,
    "#0.tnew(new %(TT)s($1));", {1: "Obj<%(FT)s>:CST"}),
  R("ppl_new_@TOPOLOGY@@CLASS@_from_@FRIEND@_with_complexity", r"ppl_new_(?P<TOP>C_|NNC_)?{D}_from_(?P<F>{FRIENDS})_with_complexity", VOID,
    "#0.tnew(new %(TT)s($1, cclass($2)));", {1: "Obj<%(FT)s>:CST", 2: "Complexity:%(POLYFRIEND)s"}),
  R("ppl_new_@TOPOLOGY@@CLASS@_from_@BUILD_REPRESENT@_System", r"ppl_new_(?P<TOP>C_|NNC_)?{D}_from_(?P<REP>Constraint|Congruence|Generator|Grid_Generator)_System", VOID,
    "#0.tnew(new %(TT)s($1));"),
  R("ppl_new_@TOPOLOGY@@CLASS@_recycle_@BUILD_REPRESENT@_System", r"ppl_new_(?P<TOP>C_|NNC_)?{D}_recycle_(?P<REP>Constraint|Congruence|Generator|Grid_Generator)_System", VOID,
    "#0.tnew(new %(TT)s($1%(RECYCLE)s));"),
  R("ppl_assign_@TOPOLOGY@@CLASS@_from_@TOPOLOGY@@CLASS@", r"ppl_assign_(?P<TOP>C_|NNC_|){D}_from_(?P=TOP){D}", VOID,
    "$0 = $1;", {0: "Obj<%(TT)s>:MUT", 1: "Obj<%(TT)s>:CST"}),
  R("ppl_@CLASS@_@DIMENSION@", r"ppl_{D}_(?P<M>space_dimension|affine_dimension)", VOID, "$1 = $0.%(M)s();"),
  R("ppl_@CLASS@_get_@CLASS_REPRESENT@s", r"ppl_{D}_get_(?P<M>constraints|congruences|generators|grid_generators)", VOID, "#1.tref($0.%(M)s());"),
  R("ppl_@CLASS@_get_minimized_@CLASS_REPRESENT@s", r"ppl_{D}_get_minimized_(?P<M>constraints|congruences|generators|grid_generators)", VOID, "#1.tref($0.minimized_%(M)s());"),
  R("ppl_@CLASS@_relation_with_@RELATION_REPRESENT@", r"ppl_{D}_relation_with_(Constraint|Generator|Congruence|Grid_Generator)", INT,
    "return (long)$0.relation_with($1).get_flags();"),
  R("ppl_@CLASS@_@HAS_PROPERTY@", r"ppl_{D}_(?P<M>is_empty|is_universe|is_bounded|contains_integer_point|is_topologically_closed|is_discrete)", BOOL,
    "return $0.%(M)s();"),
  R("ppl_@CLASS@_bounds_from_@ABOVEBELOW@", r"ppl_{D}_(?P<M>bounds_from_above|bounds_from_below)", BOOL, "return $0.%(M)s($1);"),
  R("ppl_@CLASS@_@MAXMIN@", r"ppl_{D}_(?P<M>maximize|minimize)", BOOL,
    "bool opt = false; bool ok = $0.%(M)s($1, $2, $3, opt); if (ok) $4 = opt ? 1 : 0; return ok;"),
  R("ppl_@CLASS@_@MAXMIN@_with_point", r"ppl_{D}_(?P<M>maximize|minimize)_with_point", BOOL,
    "bool opt = false; bool ok = $0.%(M)s($1, $2, $3, opt, $5); if (ok) $4 = opt ? 1 : 0; return ok;", {5: "Obj<Generator>:MUT:2"}),
  R("ppl_@CLASS@_has_@UPPERLOWER@_bound", r"ppl_{D}_(?P<M>has_upper_bound|has_lower_bound)", BOOL,
    "bool cl = false; bool ok = $0.%(M)s(Variable($1), $2, $3, cl); if (ok) $4 = cl ? 1 : 0; return ok;"),
  R("ppl_@CLASS@_frequency", r"ppl_{D}_frequency", BOOL, "return $0.frequency($1, $2, $3, $4, $5);"),
  R("ppl_@CLASS@_@COMPARISON@_@CLASS@", r"ppl_{D}_(?P<M>contains|strictly_contains|is_disjoint_from|geometrically_covers|geometrically_equals)_{D}", BOOL,
    "return $0.%(M)s($1);"),
  R("ppl_@CLASS@_equals_@CLASS@", r"ppl_{D}_equals_{D}", BOOL, "return $0 == $1;"),
  R("ppl_@CLASS@_OK", r"ppl_{D}_OK", BOOL, "return $0.OK();"),
  R("ppl_@CLASS@_@SIMPLIFY@", r"ppl_{D}_(?P<M>topological_closure_assign|pairwise_reduce|omega_reduce)", VOID, "$0.%(M)s();"),
  R("ppl_@CLASS@_unconstrain_space_dimension", r"ppl_{D}_unconstrain_space_dimension", VOID, "$0.unconstrain(Variable($1));"),
  R("ppl_@CLASS@_unconstrain_space_dimensions", r"ppl_{D}_unconstrain_space_dimensions", VOID, "$0.unconstrain($1);"),
  R("ppl_@CLASS@_constrains", r"ppl_{D}_constrains", BOOL, "return $0.constrains(Variable($1));"),
  R("ppl_@CLASS@_@BINOP@", r"ppl_{D}_(?P<M>intersection_assign|upper_bound_assign|difference_assign|concatenate_assign|time_elapse_assign|poly_hull_assign|poly_difference_assign)", VOID,
    "$0.%(M)s($1);"),
  R("ppl_@CLASS@_positive_time_elapse_assign", r"ppl_{D}_positive_time_elapse_assign", VOID,
    "if (is_nc($0)) static_cast<C_Polyhedron&>($0).positive_time_elapse_assign(static_cast<const C_Polyhedron&>($1));"
    " else static_cast<NNC_Polyhedron&>($0).positive_time_elapse_assign(static_cast<const NNC_Polyhedron&>($1));"),
  R("ppl_@CLASS@_@UB_EXACT@", r"ppl_{D}_(?P<M>upper_bound_assign_if_exact|poly_hull_assign_if_exact)", BOOL, "%(UBEXACT)s"),
  R("ppl_@CLASS@_simplify_using_context_assign", r"ppl_{D}_simplify_using_context_assign", BOOL, "return $0.simplify_using_context_assign($1);"),
  R("ppl_@CLASS@_add_@CLASS_REPRESENT@", r"ppl_{D}_(?P<M>add_constraint|add_congruence|add_generator|add_grid_generator)", VOID, "$0.%(M)s($1);"),
  R("ppl_@CLASS@_refine_with_@REFINE_REPRESENT@", r"ppl_{D}_(?P<M>refine_with_constraint|refine_with_congruence)", VOID, "$0.%(M)s($1);"),
  R("ppl_@CLASS@_add_@CLASS_REPRESENT@s", r"ppl_{D}_(?P<M>add_constraints|add_congruences|add_generators|add_grid_generators)", VOID, "$0.%(M)s($1);"),
  R("ppl_@CLASS@_refine_with_@REFINE_REPRESENT@s", r"ppl_{D}_(?P<M>refine_with_constraints|refine_with_congruences)", VOID, "$0.%(M)s($1);"),
  R("ppl_@CLASS@_add_recycled_@CLASS_REPRESENT@s", r"ppl_{D}_(?P<M>add_recycled_constraints|add_recycled_congruences|add_recycled_generators|add_recycled_grid_generators)", VOID, "$0.%(M)s($1);"),
  R("ppl_@CLASS@_@AFFIMAGE@", r"ppl_{D}_(?P<M>affine_image|affine_preimage)", VOID, "$0.%(M)s(Variable($1), $2, $3);"),
  R("ppl_@CLASS@_bounded_@AFFIMAGE@", r"ppl_{D}_(?P<M>bounded_affine_image|bounded_affine_preimage)", VOID, "$0.%(M)s(Variable($1), $2, $3, $4);"),
  R("ppl_@CLASS@_generalized_@AFFIMAGE@", r"ppl_{D}_(?P<M>generalized_affine_image|generalized_affine_preimage)", VOID,
    "$0.%(M)s(Variable($1), relsym($2), $3, $4);"),
  R("ppl_@CLASS@_generalized_@AFFIMAGE@_lhs_rhs", r"ppl_{D}_(?P<M>generalized_affine_image|generalized_affine_preimage)_lhs_rhs", VOID,
    "$0.%(M)s($1, relsym($2), $3);"),
  R("ppl_@CLASS@_generalized_@AFFIMAGE@_with_congruence", r"ppl_{D}_(?P<M>generalized_affine_image|generalized_affine_preimage)_with_congruence", VOID,
    "$0.%(M)s(Variable($1), relsym($2), $3, $4, $5);"),
  R("ppl_@CLASS@_generalized_@AFFIMAGE@_lhs_rhs_with_congruence", r"ppl_{D}_(?P<M>generalized_affine_image|generalized_affine_preimage)_lhs_rhs_with_congruence", VOID,
    "$0.%(M)s($1, relsym($2), $3, $4);"),
  R("ppl_@CLASS@_@WIDEN@_widening_assign_with_tokens", r"ppl_{D}_(?P<M>\w+_widening_assign|widening_assign|\w+_extrapolation_assign)_with_tokens", VOID,
    "%(WIDEN_TOK)s"),
  R("ppl_@CLASS@_@WIDEN@_widening_assign", r"ppl_{D}_(?P<M>(?!BHZ03_)\w+_widening_assign|widening_assign|(?!BGP99_)\w+_extrapolation_assign)", VOID,
    "%(WIDEN)s"),
  R("ppl_@CLASS@_@EXTRAPOLATION@_narrowing_assign", r"ppl_{D}_(?P<M>\w+_narrowing_assign)", VOID, "$0.%(M)s($1);"),
  R("ppl_@CLASS@_BHZ03_@A_DISJUNCT_WIDEN@_@DISJUNCT_WIDEN@_widening_assign", r"ppl_{D}_BHZ03_(?P<CERT>BHRZ03|H79)_(?P<W>BHRZ03|H79)_widening_assign", VOID,
    "$0.BHZ03_widening_assign<%(CERT)s_Certificate>($1, widen_fun_ref(&%(DISJ)s::%(W)s_widening_assign));"),
  R("ppl_@CLASS@_BGP99_@DISJUNCT_WIDEN@_extrapolation_assign", r"ppl_{D}_BGP99_(?P<W>BHRZ03|H79)_extrapolation_assign", VOID,
    "$0.BGP99_extrapolation_assign($1, widen_fun_ref(&%(DISJ)s::%(W)s_widening_assign), (unsigned)$2);", {2: "Scalar:0,1,2"}),
  R("ppl_@CLASS@_add_space_dimensions_@EMBEDPROJECT@", r"ppl_{D}_(?P<M>add_space_dimensions_and_embed|add_space_dimensions_and_project)", VOID,
    "$0.%(M)s($1);", {1: "DimSmall"}),
  R("ppl_@CLASS@_remove_space_dimensions", r"ppl_{D}_remove_space_dimensions", VOID, "$0.remove_space_dimensions($1);"),
  R("ppl_@CLASS@_remove_higher_space_dimensions", r"ppl_{D}_remove_higher_space_dimensions", VOID, "$0.remove_higher_space_dimensions($1);"),
  R("ppl_@CLASS@_map_space_dimensions", r"ppl_{D}_map_space_dimensions", VOID, "PFunc pf(#1.t); $0.map_space_dimensions(pf);", {1: "DimArrMap"}),
  R("ppl_@CLASS@_expand_space_dimension", r"ppl_{D}_expand_space_dimension", VOID, "$0.expand_space_dimension(Variable($1), $2);", {2: "DimSmall"}),
  R("ppl_@CLASS@_fold_space_dimensions", r"ppl_{D}_fold_space_dimensions", VOID, "$0.fold_space_dimensions($1, Variable($2));"),
  R("ppl_@CLASS@_drop_some_non_integer_points", r"ppl_{D}_drop_some_non_integer_points", VOID, "$0.drop_some_non_integer_points(cclass($1));"),
  R("ppl_@CLASS@_drop_some_non_integer_points_2", r"ppl_{D}_drop_some_non_integer_points_2", VOID, "$0.drop_some_non_integer_points($1, cclass($2));"),
  R("ppl_@CLASS@_@MEMBYTES@", r"ppl_{D}_(?P<M>total_memory_in_bytes|external_memory_in_bytes)", VOID, "$1 = $0.%(M)s();"),
  R("ppl_@CLASS@_size", r"ppl_{D}_size", VOID, "$1 = $0.size();"),
  R("ppl_@CLASS@_add_disjunct", r"ppl_{D}_add_disjunct", VOID, "$0.add_disjunct($1);", {1: "Obj<%(DISJ)s>:CST"}),
  R("ppl_@CLASS@_wrap_assign", r"ppl_{D}_wrap_assign", VOID,
    "$0.wrap_assign($1, bwidth($2), brep($3), bovf($4), $5, (unsigned)$6, $7 != 0);",
    {2: "Scalar:PPL_BITS_8,PPL_BITS_16,PPL_BITS_32,PPL_BITS_64,PPL_BITS_128", 3: "Scalar:PPL_SIGNED_2_COMPLEMENT,PPL_UNSIGNED",
     4: "Scalar:PPL_OVERFLOW_WRAPS,PPL_OVERFLOW_UNDEFINED,PPL_OVERFLOW_IMPOSSIBLE", 5: "CSPtr", 6: "Scalar:16,0", 7: "Scalar:0,1"}),
  R("ppl_@CLASS@_ascii_dump", r"ppl_{D}_ascii_dump", VOID, "std::ostringstream s; $0.ascii_dump(s); $1 = s.str();"),
  R("ppl_@CLASS@_ascii_load", r"ppl_{D}_ascii_load", LOAD, "return $0.ascii_load($1);", {1: "FileR<%(T)s>"}),
  R("ppl_io_print_@CLASS@", r"ppl_io_print_{D}", VOID, "using namespace IO_Operators; std::ostringstream s; s << $0; R.s1 = s.str();", stdout=True,
    post="if (R.tcode == 0 && R.rc >= 0) R.expect(R.cout_text == R.s1, \"capi:output-differs\", brief(R.cout_text), brief(R.s1));"),
  R("ppl_io_fprint_@CLASS@", r"ppl_io_fprint_{D}", VOID, "using namespace IO_Operators; std::ostringstream s; s << $1; $0 = s.str();"),
  R("ppl_io_asprint_@CLASS@", r"ppl_io_asprint_{D}", VOID, "using namespace IO_Operators; std::ostringstream s; s << $1; $0 = s.str();"),
  R("ppl_termination_test_@TERMINATION_ID@_@TOPOLOGY@@CLASS@", r"ppl_termination_test_(?P<ID>MS|PR)_(?P<TOP>C_|NNC_)?{D}", BOOL,
    "return termination_test_%(ID)s($0);", {0: "Obj<%(TT)s>:CST"}),
  R("ppl_termination_test_@TERMINATION_ID@_@TOPOLOGY@@CLASS@_2", r"ppl_termination_test_(?P<ID>MS|PR)_(?P<TOP>C_|NNC_)?{D}_2", BOOL,
    "return termination_test_%(ID)s_2($0, $1);", {0: "Obj<%(TT)s>:CST", 1: "Obj<%(TT)s>:CST"}),
  R("ppl_one_affine_ranking_function_@TERMINATION_ID@_@TOPOLOGY@@CLASS@", r"ppl_one_affine_ranking_function_(?P<ID>MS|PR)_(?P<TOP>C_|NNC_)?{D}", BOOL,
    "return one_affine_ranking_function_%(ID)s($0, $1);", {0: "Obj<%(TT)s>:CST", 1: "Obj<Generator>:MUT:2"}),
  R("ppl_one_affine_ranking_function_@TERMINATION_ID@_@TOPOLOGY@@CLASS@_2", r"ppl_one_affine_ranking_function_(?P<ID>MS|PR)_(?P<TOP>C_|NNC_)?{D}_2", BOOL,
    "return one_affine_ranking_function_%(ID)s_2($0, $1, $2);", {0: "Obj<%(TT)s>:CST", 1: "Obj<%(TT)s>:CST", 2: "Obj<Generator>:MUT:2"}),
  R("ppl_all_affine_ranking_functions_@TERMINATION_ID@_@TOPOLOGY@@CLASS@", r"ppl_all_affine_ranking_functions_(?P<ID>MS|PR)_(?P<TOP>C_|NNC_)?{D}", VOID,
    "all_affine_ranking_functions_%(ID)s($0, $1);", {0: "Obj<%(TT)s>:CST", 1: "Obj<%(RANKPH)s>:MUT:3"}),
  R("ppl_all_affine_ranking_functions_@TERMINATION_ID@_@TOPOLOGY@@CLASS@_2", r"ppl_all_affine_ranking_functions_(?P<ID>MS|PR)_(?P<TOP>C_|NNC_)?{D}_2", VOID,
    "all_affine_ranking_functions_%(ID)s_2($0, $1, $2);", {0: "Obj<%(TT)s>:CST", 1: "Obj<%(TT)s>:CST", 2: "Obj<%(RANKPH)s>:MUT:3"}),
  R("ppl_all_affine_quasi_ranking_functions_MS_@TOPOLOGY@@CLASS@", r"ppl_all_affine_quasi_ranking_functions_MS_(?P<TOP>C_|NNC_)?{D}", VOID,
    "all_affine_quasi_ranking_functions_MS($0, $1, $2);", {0: "Obj<%(TT)s>:CST", 1: "Obj<C_Polyhedron>:MUT:3", 2: "Obj<C_Polyhedron>:MUT:3"}),
  R("ppl_all_affine_quasi_ranking_functions_MS_@TOPOLOGY@@CLASS@_2", r"ppl_all_affine_quasi_ranking_functions_MS_(?P<TOP>C_|NNC_)?{D}_2", VOID,
    "all_affine_quasi_ranking_functions_MS_2($0, $1, $2, $3);", {0: "Obj<%(TT)s>:CST", 1: "Obj<%(TT)s>:CST", 2: "Obj<C_Polyhedron>:MUT:3", 3: "Obj<C_Polyhedron>:MUT:3"}),
]

# entry points that are matched but deliberately not exercised (listed in the evidence)
UNCOVERED = [
  # (regex, reason)
  (r"ppl_new_Linear_Expression_from_Grid_Generator", "declared in ppl_c_header.h but its definition is commented out in ppl_c_implementation_common.cc "
   "(FIXME: to be restored soon): cannot be linked; the harness checks through a weak reference that the symbol is indeed undefined"),
]

def domain_env(D, classes, m):
    """template environment for a domain rule match"""
    T = cpp_of(D, classes)
    g = {k: (v or "") for k, v in m.groupdict().items()}
    env = dict(g)
    env["D"], env["T"] = D, T
    top = g.get("TOP", "")
    env["TT"] = (top + "Polyhedron") if (D == "Polyhedron" and top) else T
    if "F" in g:
        env["FT"] = cpp_of(g["F"], classes)
        env["POLYFRIEND"] = "1" if (D == "Polyhedron" and g["F"] in ("C_Polyhedron", "NNC_Polyhedron")) else "0"
    env["RECYCLE"] = ", Recycle_Input()" if D in ("Polyhedron", "Grid") else ""
    if D == "Polyhedron":
        env["UBEXACT"] = ("if (is_nc($0)) return static_cast<C_Polyhedron&>($0).upper_bound_assign_if_exact(static_cast<const C_Polyhedron&>($1));"
                          " else return static_cast<NNC_Polyhedron&>($0).upper_bound_assign_if_exact(static_cast<const NNC_Polyhedron&>($1));")
    else:
        env["UBEXACT"] = "return $0.%s($1);" % g.get("M", "upper_bound_assign_if_exact")
    # widenings: the C functions without tokens pass a null token pointer
    M = g.get("M", "")
    if M:
        if re.match(r"(limited|bounded)_", M):
            env["WIDEN_TOK"] = "$0.%s($1, $2, $3);" % M
            env["WIDEN"] = "$0.%s($1, $2, 0);" % M
        else:
            env["WIDEN_TOK"] = "$0.%s($1, $2);" % M
            env["WIDEN"] = "$0.%s($1, 0);" % M
    md = re.match(r"Pointset_Powerset_(.*)$", D)
    if md:
        env["DISJ"] = cpp_of(md.group(1), classes) or md.group(1)
    itk = g.get("ITK", "")
    if itk:
        env["ITTR"] = ("MutItOf<%s >" if itk == "iterator" else "ItOf<%s >") % T
        env["BE"] = "b" if M == "begin" else "e"
        env["INCDEC"] = "--" if M == "decrement" else "++"
        env["ITFLAG"] = "IT_NOTBEGIN" if M == "decrement" else "IT_DEREF"
    PSN = "Pointset_Powerset<NNC_Polyhedron>"
    if D == "Polyhedron":
        env["LP_TWIN"] = ("if (is_nc($0)) { std::pair<C_Polyhedron, %s > r = linear_partition(static_cast<const C_Polyhedron&>($0), static_cast<const C_Polyhedron&>($1)); R.s1 = dump(r.first); R.s2 = dump(r.second); }"
                          " else { std::pair<NNC_Polyhedron, %s > r = linear_partition(static_cast<const NNC_Polyhedron&>($0), static_cast<const NNC_Polyhedron&>($1)); R.s1 = dump(r.first); R.s2 = dump(r.second); }") % (PSN, PSN)
    else:
        env["LP_TWIN"] = "std::pair<%s, %s > r = linear_partition($0, $1); R.s1 = dump(r.first); R.s2 = dump(r.second);" % (T, PSN)
    # a correct implementation hands two new objects over to the caller (released by the stub after the comparison)
    env["LP_TWIN"] = "R.extra_new = 1 << 20; " + env["LP_TWIN"]
    env["LP_COMPARE"] = ("%s* pi = static_cast<%s*>(#2.slot); %s* pr = static_cast<%s*>(#3.slot); "
                         "R.expect(pi && pr && dump(*pi) == R.s1 && dump(*pr) == R.s2, \"capi:result-differs\", \"partition differs\", \"result of linear_partition\"); delete pi; delete pr;") % (T, T, PSN, PSN)
    env["RANKPH"] = "NNC_Polyhedron" if g.get("ID") == "PR" else "C_Polyhedron"
    return env

from capi_rules_fixed import FIXED_RULES, EXTRA_DOMAIN_RULES, MANUAL, fixed_env  # noqa: E402


# ------------------------------------------------------------------------------------------------
# life-cycle sequences (mode life): per domain, every available creator x every available simple operation x delete
# ------------------------------------------------------------------------------------------------
def life_stub(D, classes, names, idx):
    T = cpp_of(D, classes)
    tops = ["C_", "NNC_"] if D == "Polyhedron" else [""]
    h = "ppl_%s_t" % D
    ch = "ppl_const_%s_t" % D
    L = ["// life cycles of %s" % D, "static void L%d(Run& R) {" % idx, "  LifeSeq L(R);",
         "  Constraint_System cs2; cs2.insert(vA() == 1); cs2.insert(vB() == 2); Constraint con0 = con_of(0); Linear_Expression le0 = le_of(5); Coefficient one(1);",
         "  static FILE* devnull = fopen(\"/dev/null\", \"w\");"]
    n_c = 0
    for top in tops:
        TT = (top + "Polyhedron") if top else T
        f = "ppl_new_%s%s_from_space_dimension" % (top, D)
        if f in names:
            L.append('  L.creator("%s", [&](void** p) { return %s((%s*)p, 2, 0); });' % (f, f, h)); n_c += 1
        f = "ppl_new_%s%s_from_Constraint_System" % (top, D)
        if f in names:
            L.append('  L.creator("%s", [&](void** p) { return %s((%s*)p, (ppl_const_Constraint_System_t)&cs2); });' % (f, f, h)); n_c += 1
        f = "ppl_new_%s%s_recycle_Constraint_System" % (top, D)
        if f in names:
            L.append('  L.creator("%s", [&](void** p) { Constraint_System tmp(cs2); return %s((%s*)p, (ppl_Constraint_System_t)&tmp); });' % (f, f, h)); n_c += 1
        f = "ppl_new_%s%s_from_%s%s" % (top, D, top, D)
        if f in names:
            L.append('  static %s* src%s = Menu<%s >::make(0);' % (TT, top, TT))
            L.append('  L.creator("%s", [&](void** p) { return %s((%s*)p, (%s)src%s); });' % (f, f, h, ch, top)); n_c += 1
    ops = [
        ("OK", "(%s)x" % ch), ("is_empty", "(%s)x" % ch), ("is_universe", "(%s)x" % ch), ("contains_integer_point", "(%s)x" % ch),
        ("add_constraint", "(%s)x, (ppl_const_Constraint_t)&con0" % h), ("refine_with_constraint", "(%s)x, (ppl_const_Constraint_t)&con0" % h),
        ("add_constraints", "(%s)x, (ppl_const_Constraint_System_t)&cs2" % h),
        ("intersection_assign", "(%s)x, (%s)x" % (h, ch)), ("upper_bound_assign", "(%s)x, (%s)x" % (h, ch)), ("difference_assign", "(%s)x, (%s)x" % (h, ch)),
        ("add_space_dimensions_and_embed", "(%s)x, 1" % h), ("add_space_dimensions_and_project", "(%s)x, 1" % h), ("remove_higher_space_dimensions", "(%s)x, 1" % h),
        ("topological_closure_assign", "(%s)x" % h), ("unconstrain_space_dimension", "(%s)x, 0" % h),
        ("affine_image", "(%s)x, 0, (ppl_const_Linear_Expression_t)&le0, (ppl_const_Coefficient_t)&one" % h),
        ("ascii_dump", "(%s)x, devnull" % ch), ("pairwise_reduce", "(%s)x" % h), ("omega_reduce", "(%s)x" % h),
    ]
    n_o = 0
    for (m, a) in ops:
        f = "ppl_%s_%s" % (D, m)
        if f in names:
            L.append('  L.op("%s", [&](void* x) { return %s(%s); });' % (f, f, a)); n_o += 1
    for m in ("space_dimension", "affine_dimension"):
        f = "ppl_%s_%s" % (D, m)
        if f in names:
            L.append('  L.op("%s", [&](void* x) { ppl_dimension_type d; return %s((%s)x, &d); });' % (f, f, ch)); n_o += 1
    for m in ("total_memory_in_bytes",):
        f = "ppl_%s_%s" % (D, m)
        if f in names:
            L.append('  L.op("%s", [&](void* x) { size_t d; return %s((%s)x, &d); });' % (f, f, ch)); n_o += 1
    L.append("  L.run((DelFn)ppl_delete_%s);" % D)
    L.append("}")
    return "\n".join(L), n_c * n_o

# ------------------------------------------------------------------------------------------------
# emission
# ------------------------------------------------------------------------------------------------
def subst(code, roles):
    def rep_acc(m):
        return roles[int(m.group(1))].acc
    def rep_raw(m):
        return "a%d" % int(m.group(1))
    code = re.sub(r"\$(\d+)", rep_acc, code)
    code = re.sub(r"#(\d+)", rep_raw, code)
    return code

def build_stub(idx, proto, rule, env, dom, classes):
    name = proto["name"]
    params = [split_param(p) for p in proto["params"]]
    roles = []
    i = 0
    ri = 0
    while i < len(params):
        ctype, pname = params[i]
        nxt = params[i + 1] if i + 1 < len(params) else None
        var = "a%d" % ri
        spec = rule.roles.get(ri)
        if spec is not None:
            spec = spec % env
        else:
            spec = infer_role(ctype, pname, nxt, var, classes)
            if spec is None:
                raise ValueError("%s: no role for parameter %d `%s %s'" % (name, i, ctype, pname))
        if spec == "DimArr" and ctype.replace(" ", "") == "size_t":
            spec = "DimArrRev"
        role = role_from_spec(spec, var, ctype, pname, classes, [params[j][0] for j in range(i + 1, min(i + 3, len(params)))])
        roles.append(role)
        i += role.nparams
        ri += 1
    twin = subst(rule.twin % env, roles)
    post = subst(rule.post % env, roles) if rule.post else ""
    pre = subst(rule.pre % env, roles) if rule.pre else ""
    if rule.kind == VOID:
        twin += " return 0;"
    call = "%s(%s)" % (name, ", ".join(r.call for r in roles))
    if proto["ret"] != "int":
        raise ValueError("%s: unexpected return type" % name)
    lines = ["// %s  [%s]" % (name, rule.label),
             "static void S%d(Run& R) {" % idx]
    for r in roles:
        lines.append("  " + r.decl)
    if rule.stdout:
        lines.append("  R.capture_stdout = true;")
    lines.append("  while (R.next()) {")
    if pre:
        lines.append("    " + pre)
    lines.append("    R.twin([&]() -> long { %s });" % twin)
    lines.append("    R.call([&]() -> int { return %s; });" % call)
    lines.append("    R.judge(%s);" % rule.kind)
    if post:
        lines.append("    " + post)
    lines.append("  }")
    lines.append("}")
    return "\n".join(lines)

def emit(protos, classes, out, write_if_changed):
    names = [c[0] for c in classes]
    friends = sorted(set(names + ["C_Polyhedron", "NNC_Polyhedron"]) - {"Polyhedron"}, key=len, reverse=True)
    friends_re = "|".join(re.escape(f) for f in friends)
    # owner domain of a prototype: the longest interface class name occurring in its name at a class position
    groups = {}       # group -> list of stub texts
    table = {}        # group -> list of (name, label, dom, idx)
    unmatched, uncovered, manual = [], [], []
    compiled_dom = {}
    for D in names:
        lst = []
        for rule in DOMAIN_RULES + EXTRA_DOMAIN_RULES:
            rx = rule.regex.replace("{D}", re.escape(D)).replace("{FRIENDS}", friends_re)
            lst.append((re.compile("^" + rx + "$"), rule))
        compiled_dom[D] = lst
    compiled_fixed = [(re.compile("^" + r.regex + "$"), r) for r in FIXED_RULES]
    compiled_unc = [(re.compile("^" + rx + "$"), why) for (rx, why) in UNCOVERED]
    idx = 0
    n_cov = 0
    errors = []
    for proto in protos:
        name = proto["name"]
        hit = None
        if name in MANUAL:
            manual.append(name); continue
        for (rx, why) in compiled_unc:
            if rx.match(name):
                uncovered.append("%s: %s" % (name, why)); hit = "unc"; break
        if hit:
            continue
        # fixed functions first (their names never contain a domain name at class position)
        for (rx, rule) in compiled_fixed:
            m = rx.match(name)
            if m:
                env = fixed_env({k: (v or "") for k, v in m.groupdict().items()})
                hit = (rule, env, "fixed"); break
        if not hit:
            cands = []
            for D in sorted(names, key=len, reverse=True):
                for (rx, rule) in compiled_dom[D]:
                    m = rx.match(name)
                    if m:
                        cands.append((D, rule, m)); break
                if cands:
                    break
            if cands:
                D, rule, m = cands[0]
                hit = (rule, domain_env(D, classes, m), D)
        if not hit:
            unmatched.append(name + "(" + ", ".join(proto["params"]) + ")")
            continue
        rule, env, dom = hit
        try:
            txt = build_stub(idx, proto, rule, env, dom, classes)
        except (ValueError, KeyError) as e:
            unmatched.append("%s: %s" % (name, e))
            continue
        groups.setdefault(dom, []).append(txt)
        table.setdefault(dom, []).append((name, rule.label, dom, idx))
        idx += 1
        n_cov += 1
    stub_files = []
    n_life = 0
    all_names = set(p["name"] for p in protos)
    all_groups = sorted(set(list(groups.keys()) + ["fixed"]))
    for gname in all_groups:
        body = ['// generated by gen/capi_gen.py -- do not edit', '#include "harness/c20_rt.hh"', '#include "harness/c20_rt2.hh"',
                "using namespace c20;", "namespace {"]
        body += groups.get(gname, [])
        life_entry = ""
        if gname in names and ("ppl_delete_%s" % gname) in all_names:
            ltxt, nseq = life_stub(gname, classes, all_names, idx + 100000 + len(stub_files))
            body.append(ltxt)
            life_entry = 'const Entry LIFE[] = {{"life:%s", "handle life cycle of @CLASS@", "%s", L%d}};\nLifeRegistrar lreg(LIFE, 1);' % (gname, gname, idx + 100000 + len(stub_files))
            n_life += nseq
        body.append("const Entry ENTRIES[] = {")
        for (name, label, dom, i) in table.get(gname, []):
            body.append('  {"%s", "%s", "%s", S%d},' % (name, label, dom, i))
        body.append("  {0, 0, 0, 0}")
        body.append("};")
        um = unmatched if gname == "fixed" else []
        uc = uncovered if gname == "fixed" else []
        body.append("const char* const UNMATCHED[] = {" + "".join(json.dumps(u) + ", " for u in um) + "0};")
        body.append("const char* const UNCOVERED[] = {" + "".join(json.dumps(u) + ", " for u in uc) + "0};")
        mn = manual if gname == "fixed" else []
        body.append("const char* const MANUALS[] = {" + "".join(json.dumps(u) + ", " for u in mn) + "0};")
        body.append("Registrar reg(ENTRIES, %d, UNMATCHED, %d, UNCOVERED, %d, MANUALS, %d);" % (len(table.get(gname, [])), len(um), len(uc), len(mn)))
        if life_entry:
            body.append(life_entry)
        body.append("}")
        fn = "stubs_%s.cc" % gname
        write_if_changed(os.path.join(out, fn), "\n".join(body) + "\n")
        stub_files.append(fn)
    for f in os.listdir(out):
        if re.match(r"stubs_.*\.cc$", f) and f not in stub_files:
            os.remove(os.path.join(out, f))
    write_if_changed(os.path.join(out, "unmatched.txt"), "\n".join(unmatched) + "\n")
    return {"stub_files": stub_files, "n_covered": n_cov + len(manual), "n_manual": len(manual), "n_life_sequences": n_life, "n_unmatched": len(unmatched), "n_uncovered_listed": len(uncovered)}

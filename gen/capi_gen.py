#!/usr/bin/env python3
"""C20: generator of the C-interface check.

  1. regenerates the C interface of PPL (ppl_c_domains.h, ppl_c.h, ppl_c_<Domain>.cc/.hh,
     ppl_c_implementation_domains.hh) from the *working tree's* m4 sources of $REPO/interfaces
     into <outdir> (m4 + the cm_cleaner/cm_splitter convention re-implemented in python);
  2. parses every prototype of the regenerated ppl_c.h;
  3. maps every prototype to a pattern (per-domain schema or fixed function) of gen/capi_rules.py
     and emits one C++ stub per entry point into <outdir>/stubs_<group>.cc;
     prototypes that match no rule are written to the table of *unmatched* entry points, which
     makes the harness emit a machinery error (exit status 2): new entry points cannot escape.

Everything is keyed by content hashes (manifest.json), so an unchanged tree costs a few ms.
Usage:  capi_gen.py <repo> <outdir>        (prints the manifest path)
"""
import sys, os, re, json, hashlib, subprocess, fcntl, time

HERE = os.path.dirname(os.path.abspath(__file__))
GEN_VERSION = "2"

def sha(b):
    return hashlib.sha1(b if isinstance(b, bytes) else b.encode()).hexdigest()

def fhash(p):
    try:
        with open(p, "rb") as f:
            return sha(f.read())
    except OSError:
        return "missing"

def write_if_changed(path, txt):
    try:
        if open(path).read() == txt:
            return False
    except OSError:
        pass
    tmp = path + ".tmp%d" % os.getpid()
    with open(tmp, "w") as f:
        f.write(txt)
    os.replace(tmp, path)
    return True

# ----------------------------------------------------------------------------------------------
# 1. regeneration of the C interface from the m4 sources
# ----------------------------------------------------------------------------------------------
# files written by ./configure: a bare git worktree of the repository does not have them; they are then taken from
# the configured reference tree ($VERIF_CONFIGURED_REPO, default /repo) -- they only depend on the configure options
CONFIGURED = {"ppl_interface_instantiations.m4": "interfaces", "ppl_c_version.h": os.path.join("interfaces", "C")}
def configured_file(repo, name):
    p = os.path.join(repo, CONFIGURED[name], name)
    if os.path.exists(p):
        return p
    q = os.path.join(os.environ.get("VERIF_CONFIGURED_REPO", "/repo"), CONFIGURED[name], name)
    if os.path.exists(q):
        return q
    raise RuntimeError("%s is missing (run ./configure in %s)" % (name, repo))

def m4_inputs(repo):
    d = os.path.join(repo, "interfaces")
    c = os.path.join(d, "C")
    files = [os.path.join(c, f) for f in sorted(os.listdir(c)) if f.endswith(".m4")]
    files += [os.path.join(d, f) for f in sorted(os.listdir(d)) if f.endswith(".m4") or f == "ppl_interface_generator_copyright"]
    files = [f for f in files if os.path.basename(f) not in CONFIGURED]
    files += [configured_file(repo, n) for n in sorted(CONFIGURED)]
    files += [os.path.join(c, "ppl_c_header.h")] + [os.path.join(c, f) for f in MIRRORED]
    files.append(os.path.join(d, "interfaced_boxes.hh"))
    return files

# hand-written sources of the interface: mirrored next to the regenerated files so that their `#include "ppl_c.h"'
# resolves to the regenerated header and never to a stale generated file lying in interfaces/C
MIRRORED = ["ppl_c_implementation_common.cc", "ppl_c_implementation_common_defs.hh", "ppl_c_implementation_common_inlines.hh"]

def run_m4(repo, src, conf):
    d = os.path.join(repo, "interfaces")
    r = subprocess.run(["m4", "--prefix-builtin", "-I" + d, "-I" + os.path.join(d, "C"), "-I" + conf, os.path.join(d, "C", src)],
                       stdout=subprocess.PIPE, stderr=subprocess.PIPE, universal_newlines=True)
    if r.returncode != 0:
        raise RuntimeError("m4 failed on %s:\n%s" % (src, r.stderr[-2000:]))
    return r.stdout

def split_blob(blob):
    """python version of utils/cm_cleaner.sh + cm_splitter.sh: ___BEGIN_OF_FILE___ name << ___END_OF_FILE___ ... ___END_OF_FILE___"""
    out = {}
    cur, buf = None, []
    for line in blob.split("\n"):
        m = re.match(r"___BEGIN_OF_FILE___\s+(\S+)\s+<<\s+___END_OF_FILE___\s*$", line)
        if m:
            cur, buf = m.group(1), []
            continue
        if line.strip() == "___END_OF_FILE___":
            if cur is not None:
                out[cur] = out.get(cur, "") + "\n".join(buf) + "\n"
            cur = None
            continue
        if cur is not None:
            buf.append(line)
    return out

def expand_header(path, dirs):
    out = []
    for line in open(path):
        m = re.match(r'\s*#\s*include\s+"([^"]+)"', line)
        if m:
            for d in dirs:
                p = os.path.join(d, m.group(1))
                if os.path.exists(p):
                    out.append(expand_header(p, dirs))
                    break
            else:
                raise RuntimeError("ppl_c_header.h includes unknown file " + m.group(1))
        else:
            out.append(line)
    return "".join(out)

PPL_HH = """/* stand-in for the generated src/ppl.hh: includes the working tree's headers directly */
#ifndef PPL_ppl_hh
#define PPL_ppl_hh 1
#include "ppl-config.h"
#include "version.hh"
#include "ppl_include_files.hh"
#define PPL_WATCHDOG_OBJECTS_ARE_SUPPORTED (PPL_HAVE_DECL_SETITIMER && PPL_HAVE_DECL_SIGACTION)
#endif
"""

def regenerate(repo, out):
    from concurrent.futures import ThreadPoolExecutor
    conf = os.path.join(out, "configured")
    os.makedirs(conf, exist_ok=True)
    for n in CONFIGURED:
        write_if_changed(os.path.join(conf, n), open(configured_file(repo, n)).read())
    with ThreadPoolExecutor(3) as ex:
        fh = ex.submit(run_m4, repo, "ppl_interface_generator_c_h.m4", conf)
        fc = ex.submit(run_m4, repo, "ppl_interface_generator_c_cc_files.m4", conf)
        fhh = ex.submit(run_m4, repo, "ppl_interface_generator_c_hh_files.m4", conf)
        domains_h, cc_blob, hh_blob = fh.result(), fc.result(), fhh.result()
    files = {}
    files["ppl_c_domains.h"] = domains_h
    cc = split_blob(cc_blob)
    hh = split_blob(hh_blob)
    if not cc:
        raise RuntimeError("m4 produced no ppl_c_<Domain>.cc file")
    files.update(cc)
    files.update(hh)
    files["ppl.hh"] = PPL_HH
    for f in MIRRORED + ["../interfaced_boxes.hh"]:
        files[os.path.basename(f)] = open(os.path.join(repo, "interfaces", "C", f)).read()
    for k, v in files.items():
        write_if_changed(os.path.join(out, k), v)
    cdir = os.path.join(repo, "interfaces", "C")
    full = expand_header(os.path.join(cdir, "ppl_c_header.h"), [out, conf, cdir])
    write_if_changed(os.path.join(out, "ppl_c.h"), full)
    # remove stale generated domain files
    keep = set(files) | {"ppl_c.h"}
    for f in os.listdir(out):
        if re.match(r"ppl_c_.*\.(cc|hh)$", f) and f not in keep:
            os.remove(os.path.join(out, f))
    return sorted(cc.keys())

# ----------------------------------------------------------------------------------------------
# 2. prototypes
# ----------------------------------------------------------------------------------------------
def parse_prototypes(out):
    txt = open(os.path.join(out, "ppl_c.h")).read()
    txt = re.sub(r'^\s*#\s*include\s*<[^>]*>.*$', "", txt, flags=re.M)
    r = subprocess.run(["gcc", "-E", "-P", "-x", "c", "-D__STDC__=1", "-"], input=txt, stdout=subprocess.PIPE,
                       stderr=subprocess.PIPE, universal_newlines=True)
    if r.returncode != 0:
        raise RuntimeError("cannot preprocess ppl_c.h: " + r.stderr[-2000:])
    pre = r.stdout
    protos = []
    # statements at file scope; skip typedefs / enums / externs
    for stmt in re.split(r";", re.sub(r"\{[^{}]*\}", "{}", pre)):
        s = " ".join(stmt.split())
        if not s or s.startswith("typedef") or "ppl_" not in s:
            continue
        s = re.sub(r'^extern "C" \{\}?', "", s).strip()
        s = re.sub(r'^extern "C" \{', "", s).strip()
        m = re.match(r"^(int|char ?\*) ?(ppl_\w+) ?\((.*)\)$", s)
        if not m:
            continue
        ret, name, params = m.group(1).replace(" ", ""), m.group(2), m.group(3).strip()
        plist = []
        if params != "void" and params != "":
            depth, cur = 0, ""
            for ch in params:
                if ch == "(":
                    depth += 1
                elif ch == ")":
                    depth -= 1
                if ch == "," and depth == 0:
                    plist.append(cur.strip()); cur = ""
                else:
                    cur += ch
            plist.append(cur.strip())
        protos.append({"name": name, "ret": ret, "params": plist})
    names = [p["name"] for p in protos]
    if len(set(names)) != len(names):
        raise RuntimeError("duplicate prototypes in ppl_c.h")
    return protos

def instantiations(repo):
    txt = open(configured_file(repo, "ppl_interface_instantiations.m4")).read()
    a = re.search(r"m4_interface_classes_names', `([^']*)'", txt).group(1).split("@")
    b = re.search(r"m4_cplusplus_classes_names', `([^']*)'", txt).group(1).split("@")
    if len(a) != len(b):
        raise RuntimeError("ppl_interface_instantiations.m4: class lists differ in length")
    return list(zip(a, b))

# ----------------------------------------------------------------------------------------------
# driver
# ----------------------------------------------------------------------------------------------
def m4_key(repo):
    h = hashlib.sha1()
    h.update(GEN_VERSION.encode())
    for p in m4_inputs(repo):
        h.update(p.encode()); h.update(fhash(p).encode())
    h.update(fhash(os.path.join(HERE, "capi_gen.py")).encode())
    return h.hexdigest()

def rules_key():
    h = hashlib.sha1()
    for f in sorted(os.listdir(HERE)):
        if f.endswith(".py"):
            h.update(fhash(os.path.join(HERE, f)).encode())
    return h.hexdigest()

def ensure(repo, out, verbose=False):
    """Bring <out> up to date; returns the manifest (dict).  Two cached stages: m4 regeneration of the
    interface (key: the m4 sources / headers of the repository), emission of the stubs (key: that + gen/*.py)."""
    os.makedirs(out, exist_ok=True)
    man_path = os.path.join(out, "manifest.json")
    mk, rk = m4_key(repo), rules_key()
    def load():
        try:
            return json.load(open(man_path))
        except Exception:
            return {}
    def current(man):
        if man.get("m4_key") != mk or man.get("rules_key") != rk:
            return False
        return all(os.path.exists(f) for f in man.get("files", [])) and bool(man.get("files"))
    man = load()
    if current(man):
        return man
    with open(os.path.join(out, ".lock"), "w") as lk:
        fcntl.flock(lk, fcntl.LOCK_EX)
        man = load()
        if current(man):
            return man
        t0 = time.time()
        sys.path.insert(0, HERE)
        import capi_rules
        if man.get("m4_key") == mk and all(os.path.exists(f) for f in man.get("iface_src", [])) and man.get("iface_src") and os.path.exists(os.path.join(out, "ppl_c.h")):
            cc_files = [os.path.basename(f) for f in man["iface_src"][:-1]]
        else:
            cc_files = regenerate(repo, out)
        t1 = time.time()
        protos = parse_prototypes(out)
        classes = instantiations(repo)
        res = capi_rules.emit(protos, classes, out, write_if_changed)
        man = {"m4_key": mk, "rules_key": rk, "repo": repo,
               "iface_src": [os.path.join(out, f) for f in cc_files] + [os.path.join(out, "ppl_c_implementation_common.cc")],
               "stub_src": [os.path.join(out, f) for f in res["stub_files"]],
               "classes": [c[0] for c in classes],
               "n_prototypes": len(protos), "n_covered": res["n_covered"], "n_unmatched": res["n_unmatched"],
               "n_uncovered_listed": res["n_uncovered_listed"],
               "m4_s": round(t1 - t0, 2), "emit_s": round(time.time() - t1, 2)}
        man["files"] = man["iface_src"] + man["stub_src"]
        write_if_changed(man_path, json.dumps(man, indent=1))
        if verbose:
            print("[capi_gen] regenerated: %d prototypes, %d covered, %d unmatched, m4 %.1fs emit %.1fs" % (
                len(protos), res["n_covered"], res["n_unmatched"], man["m4_s"], man["emit_s"]), file=sys.stderr)
        return man

if __name__ == "__main__":
    if len(sys.argv) != 3:
        print(__doc__); sys.exit(2)
    m = ensure(os.path.realpath(sys.argv[1]), sys.argv[2], verbose=True)
    print(os.path.join(sys.argv[2], "manifest.json"))
